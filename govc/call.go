package main

import (
	"fmt"
	"go/ast"
	"go/types"
	"sort"
	"strings"

	"golang.org/x/tools/go/ssa"
)

// callEffect summarises what a call may write (used for loop havoc).
type callEff struct {
	all   bool
	sorts map[Sort]bool
}

// knownPure: external functions that do not write memory reachable from their arguments (trusted).
var knownPurePrefixes = []string{
	"strings.", "strconv.", "unicode.", "unicode/utf8.", "bytes.Equal", "bytes.HasPrefix", "bytes.IndexByte", "bytes.Contains",
	"errors.New", "errors.Is", "errors.As", "fmt.Errorf", "fmt.Sprintf", "fmt.Sprint", "fmt.Sprintln", "math.", "math/bits.",
	"slices.BinarySearch", "slices.Index", "slices.Contains", "slices.Equal", "slices.Max", "slices.Min", "path/filepath.", "path.",
	"os.Getenv", "regexp.QuoteMeta", "time.Now", "maps.Keys", "maps.Values", "cmp.Compare", "utf8.",
}

func isKnownPure(key string) bool {
	if strings.HasPrefix(key, "strings.Builder.") || strings.HasPrefix(key, "bytes.Buffer.") {
		return false
	}
	for _, p := range knownPurePrefixes {
		if strings.HasPrefix(key, p) {
			return true
		}
	}
	return false
}

func (e *Enc) calleeOf(c ssa.CallInstruction) (*ssa.Function, string) {
	com := c.Common()
	if com.IsInvoke() {
		recv := types.Unalias(com.Value.Type())
		name := com.Method.Name()
		if n, ok := recv.(*types.Named); ok {
			pkg := ""
			if n.Obj().Pkg() != nil {
				pkg = n.Obj().Pkg().Path() + "."
			}
			return nil, pkg + n.Obj().Name() + "." + name
		}
		return nil, "interface." + name
	}
	if f := com.StaticCallee(); f != nil {
		return f, funcKey(f)
	}
	return nil, ""
}

// pureUF is the result of a call of a pure function as an uninterpreted function of the argument leaves and of every
// heap component of the state the call is made in.
func (e *Enc) pureUF(key string, resT types.Type, args []Val, st *State) (Val, bool) {
	if tup, ok := resT.(*types.Tuple); ok && tup.Len() == 0 {
		return Val{}, false
	}
	ls, ok := e.M.leafSorts(resT)
	if !ok || len(ls) == 0 || !plainData(resT, 0) {
		return Val{}, false
	}
	var argTerms, argSorts []string
	for _, a := range args {
		if a.Bad || a.T == nil {
			return Val{}, false
		}
		as, ok := e.M.leafSorts(a.T)
		if !ok || len(as) != len(a.L) {
			return Val{}, false
		}
		for i, s := range as {
			argTerms = append(argTerms, a.L[i])
			argSorts = append(argSorts, e.M.smtSort(s))
		}
	}
	var hs []string
	if ct := e.contractFor(key); ct == nil || !ct.Stateless {
		for s := range e.knownSorts {
			hs = append(hs, string(s))
		}
	}
	sort.Strings(hs)
	for _, s := range hs {
		argTerms = append(argTerms, e.heap(st, Sort(s)))
		argSorts = append(argSorts, e.heapSort(Sort(s)))
	}
	e.assumptions["results of pure functions are functions of their arguments and the heap (no hidden inputs such as clocks or I/O): "+shortKey(key)] = true
	out := Val{T: resT}
	for i, s := range ls {
		name := fmt.Sprintf("pf_%s_%d", sanitize(key), i)
		e.prelude(name, fmt.Sprintf("(declare-fun %s (%s) %s)", name, strings.Join(argSorts, " "), e.M.smtSort(s)))
		if len(argTerms) == 0 {
			out.L = append(out.L, name)
		} else {
			out.L = append(out.L, "("+name+" "+strings.Join(argTerms, " ")+")")
		}
	}
	return out, true
}

// plainData: integers, booleans, strings and structs/arrays of them (no references). Only such results of pure
// functions are named by uninterpreted functions; reference results keep their contract-only description.
func plainData(t types.Type, depth int) bool {
	if depth > 4 {
		return false
	}
	switch u := t.Underlying().(type) {
	case *types.Basic:
		return u.Kind() != types.UnsafePointer
	case *types.Struct:
		for i := 0; i < u.NumFields(); i++ {
			if !plainData(u.Field(i).Type(), depth+1) {
				return false
			}
		}
		return true
	case *types.Array:
		return plainData(u.Elem(), depth+1)
	}
	return false
}

// noFrameClaimed: a contract of a function of the repository (not a trusted specification) without `pure` or
// `modifies`: nothing is proved about what it writes, so callers must assume it writes anything.
func noFrameClaimed(ct *Contract) bool {
	return ct.Trusted == "" && !ct.Pure && len(ct.Modifies) == 0 && !ct.ModHeap
}

func (e *Enc) contractFor(key string) *Contract {
	if key == "" {
		return nil
	}
	if e.Ct != nil && e.Ct.Opaque[key] {
		return nil
	}
	if c, ok := e.CS.Funcs[key]; ok {
		return c
	}
	return nil
}

func (e *Enc) callEffect(c ssa.CallInstruction) callEff {
	eff := callEff{sorts: map[Sort]bool{}}
	com := c.Common()
	if b, ok := com.Value.(*ssa.Builtin); ok {
		switch b.Name() {
		case "append":
			if sl, ok := com.Args[0].Type().Underlying().(*types.Slice); ok {
				e.allSorts(sl.Elem(), eff.sorts)
			}
		case "copy":
			if sl, ok := com.Args[0].Type().Underlying().(*types.Slice); ok {
				e.allSorts(sl.Elem(), eff.sorts)
			}
		case "clear":
			if sl, ok := com.Args[0].Type().Underlying().(*types.Slice); ok {
				e.allSorts(sl.Elem(), eff.sorts)
			}
		}
		return eff
	}
	_, key := e.calleeOf(c)
	if ct := e.contractFor(key); ct != nil {
		if ct.ModHeap || noFrameClaimed(ct) {
			eff.all = true
			return eff
		}
		if len(ct.Modifies) > 0 {
			// conservative: all sorts of the modified targets are unknown here -> havoc those sorts
			// (resolved precisely at the call itself); for loops we simply mark every known sort of the targets
			eff.all = true
		}
		return eff
	}
	if isKnownPure(key) {
		return eff
	}
	eff.all = true
	return eff
}

func (e *Enc) call(x *ssa.Call, st *State) {
	e.callInner(x, st)
	// object invariants hold again after any call: callees may write the fields, but every writer re-establishes them
	if e.Ct != nil && len(e.Ct.ObjInv) > 0 {
		if _, isBuiltin := x.Common().Value.(*ssa.Builtin); !isBuiltin {
			env := e.fnEnv(st, nil)
			for _, c := range e.Ct.ObjInv {
				e.emitAssert(e.curBlock, implies(e.reachHere(), e.evalHyp(c.Expr, env)))
			}
		}
	}
}

func (e *Enc) callInner(x *ssa.Call, st *State) {
	m := e.M
	com := x.Common()
	if b, ok := com.Value.(*ssa.Builtin); ok {
		e.builtin(x, b, st)
		return
	}
	callee, key := e.calleeOf(x)
	var args []Val
	if com.IsInvoke() {
		args = append(args, e.val(com.Value))
	}
	for _, a := range com.Args {
		args = append(args, e.val(a))
	}
	ct := e.contractFor(key)
	resT := x.Type()
	// result
	mkResult := func() Val {
		if tup, ok := resT.(*types.Tuple); ok && tup.Len() == 0 {
			return Val{T: resT}
		}
		v := e.havocVal(resT, "r_"+sanitize(x.Name()))
		return v
	}
	if ct == nil {
		if isKnownPure(key) {
			e.usedTrusted["pure (no writes through arguments): "+key] = true
			e.bumpAlloc(st)
			v := mkResult()
			e.vals[x] = v
			e.emitAssert(-1, e.typeFacts(v, st))
			e.emitAssert(-1, e.notLocal(v))
			return
		}
		// unknown callee: may modify everything, returns anything
		if key == "" {
			key = "dynamic call"
		}
		e.abstract("call without contract (havoc): " + key)
		e.havocAll(st)
		v := mkResult()
		e.vals[x] = v
		e.emitAssert(-1, e.typeFacts(v, st))
		e.emitAssert(-1, e.notLocal(v))
		return
	}
	if ct.Trusted != "" {
		e.usedTrusted[ct.Trusted+": "+key] = true
	}
	// parameter names
	var pnames []string
	if callee != nil {
		f := callee
		if o := f.Origin(); o != nil {
			f = o
		}
		for _, p := range f.Params {
			pnames = append(pnames, p.Name())
		}
		if len(pnames) != len(args) && len(callee.Params) == len(args) {
			pnames = nil
			for _, p := range callee.Params {
				pnames = append(pnames, p.Name())
			}
		}
	}
	if callee == nil && com.IsInvoke() {
		pnames = []string{"recv"}
		msig := com.Method.Type().(*types.Signature)
		for i := 0; i < msig.Params().Len(); i++ {
			n := msig.Params().At(i).Name()
			if n == "" || n == "_" {
				n = fmt.Sprintf("arg%d", i)
			}
			pnames = append(pnames, n)
		}
	}
	if len(ct.Params) > 0 {
		pnames = ct.Params
	}
	if len(pnames) != len(args) {
		e.errs = append(e.errs, fmt.Sprintf("contract %s: cannot bind %d args to params %v", key, len(args), pnames))
		e.havocAll(st)
		e.vals[x] = mkResult()
		return
	}
	vars := map[string]Val{}
	for i, n := range pnames {
		vars[n] = args[i]
	}
	// a call of a closure made in this function: the callee's free variables are the bindings (pointers to the
	// captured variables), under the names its contract uses
	if mc, ok := com.Value.(*ssa.MakeClosure); ok && callee != nil {
		for i, fv := range callee.FreeVars {
			if i < len(mc.Bindings) {
				if _, shadow := vars[fv.Name()]; !shadow {
					vars[fv.Name()] = e.val(mc.Bindings[i])
				}
			}
		}
	}
	pre := st.clone()
	calleePkg := e.Pkg
	if callee != nil && callee.Pkg != nil {
		calleePkg = callee.Pkg
	} else if ct.Pkg != "" && e.P.Pkgs[ct.Pkg] != nil {
		calleePkg = e.P.Pkgs[ct.Pkg]
	}
	envPre := &Env{e: e, vars: vars, st: pre, old: pre, pkg: calleePkg}
	// requires
	e.occ["callsite:"+key]++
	site := fmt.Sprintf("%s.%d", shortKey(key), e.occ["callsite:"+key])
	for i, c := range ct.Requires {
		t := e.evalGoal(c.Expr, envPre)
		e.oblige("call-requires", site+"."+clauseLabel(c, i), x.Pos(), e.reachHere(), t, "precondition of "+key+": "+c.Text)
		e.emitAssert(e.curBlock, implies(e.reachHere(), e.evalHyp(c.Expr, envPre)))
	}
	// modifies: a verified callee that claims no frame (neither pure nor modifies) may write anything
	if ct.ModHeap || noFrameClaimed(ct) {
		e.havocAll(st)
	}
	{
		for _, mc := range ct.Modifies {
			if fobj, foff, ft, ok := e.evalModField(mc, envPre); ok {
				// a field of a struct: only its cells become arbitrary
				if _, isCells := ft.(*sliceCells); !isCells {
					if hv := e.havocVal(ft, "modf"); !hv.Bad {
						e.store(st, ft, fobj, foff, hv)
						e.emitAssert(-1, e.typeFacts(hv, st))
						continue
					}
				}
				// a large field (array) or the elements of a slice: the cells of the range become arbitrary, the
				// others keep their values
				sorts := map[Sort]bool{}
				if sc, isCells := ft.(*sliceCells); isCells {
					e.allSorts(sc.elem, sorts)
				} else {
					e.allSorts(ft, sorts)
				}
				var ss []string
				for s := range sorts {
					ss = append(ss, string(s))
				}
				sort.Strings(ss)
				_, hi := e.modRange(foff, ft)
				for _, s0 := range ss {
					s := Sort(s0)
					h := e.heap(st, s)
					arr := e.fresh("A_" + s0)
					e.emitDecl(fmt.Sprintf("(declare-const %s (Array %s %s))", arr, m.smtSort(SI), m.smtSort(s)))
					e.emitAssert(-1, fmt.Sprintf("(forall ((k %s)) (! (=> (not (and %s %s)) (= (select %s k) (select (select %s %s) k))) :pattern ((select %s k))))",
						m.smtSort(SI), m.ile(foff, "k"), m.ilt("k", hi), arr, h, fobj, arr))
					nh := e.fresh("H_" + s0)
					e.emitDecl(fmt.Sprintf("(define-fun %s () %s (store %s %s %s))", nh, e.heapSort(s), h, fobj, arr))
					st.H[s] = nh
				}
				continue
			}
			obj, t := e.evalModTarget(mc, envPre)
			if obj == "" {
				e.havocAll(st)
				break
			}
			sorts := map[Sort]bool{}
			e.allSorts(t, sorts)
			var ss []string
			for s := range sorts {
				ss = append(ss, string(s))
			}
			sort.Strings(ss)
			for _, s := range ss {
				e.havocObj(st, Sort(s), obj)
			}
		}
	}
	e.bumpAlloc(st)
	// results: a callee that writes nothing (pure) returns a function of its arguments and the heap, so that two calls
	// in the same state agree and contract expressions can name the result (x.End() in an ensures clause)
	res := mkResult()
	if ct.Pure {
		if v, ok := e.pureUF(key, resT, args, pre); ok {
			res = v
		}
	}
	e.vals[x] = res
	e.emitAssert(-1, e.typeFacts(res, st))
	e.emitAssert(-1, e.notLocal(res))
	// bind result names
	var rnames []string
	var sig *types.Signature
	if callee != nil {
		sig = callee.Signature
	} else if com.IsInvoke() {
		sig = com.Method.Type().(*types.Signature)
	}
	if sig != nil {
		n := sig.Results().Len()
		for i := 0; i < n; i++ {
			nm := sig.Results().At(i).Name()
			if nm == "" || nm == "_" {
				if n == 1 {
					nm = "result"
				} else {
					nm = fmt.Sprintf("result%d", i)
				}
			}
			rnames = append(rnames, nm)
		}
		if len(ct.Returns) == n {
			rnames = append([]string(nil), ct.Returns...)
		}
		post := map[string]Val{}
		for k, v := range vars {
			post[k] = v
		}
		if n == 1 {
			post[rnames[0]] = res
			post["result"] = res
		} else if n > 1 && !res.Bad {
			tup := sig.Results()
			for i := 0; i < n; i++ {
				lo, hi := tupleOffset(m, tup, i)
				if hi <= len(res.L) {
					post[rnames[i]] = Val{T: tup.At(i).Type(), L: res.L[lo:hi]}
				}
			}
		}
		envPost := &Env{e: e, vars: post, st: st, old: pre, pkg: calleePkg, allocPre: pre.Alloc}
		stPost := st.clone()
		for _, c := range ct.Ensures {
			e.assume(e.curBlock, e.reachHere(), c.Expr, func() *Env {
				return &Env{e: e, vars: post, st: stPost, old: pre, pkg: calleePkg, allocPre: pre.Alloc}
			})
		}
		for _, c := range ct.Records {
			t := e.evalHyp(c.Expr, envPost)
			e.emitAssert(e.curBlock, implies(e.reachHere(), t))
		}
	}
}

func shortKey(k string) string {
	k = strings.TrimPrefix(k, "mvdan.cc/sh/v3/")
	return k
}

func (e *Enc) builtin(x *ssa.Call, b *ssa.Builtin, st *State) {
	m := e.M
	com := x.Common()
	z := m.ilit(0)
	switch b.Name() {
	case "len", "cap":
		a := e.val(com.Args[0])
		if a.Bad {
			v := e.havocVal(x.Type(), "len")
			e.emitAssert(-1, m.ile(z, v.L[0]))
			e.vals[x] = v
			return
		}
		switch u := com.Args[0].Type().Underlying().(type) {
		case *types.Slice:
			if b.Name() == "len" {
				e.bind(x, Val{T: x.Type(), L: []string{a.L[2]}})
			} else {
				e.bind(x, Val{T: x.Type(), L: []string{a.L[3]}})
			}
			return
		case *types.Basic:
			e.needStr()
			e.bind(x, Val{T: x.Type(), L: []string{"(slen " + a.L[0] + ")"}})
			return
		case *types.Array:
			e.bind(x, Val{T: x.Type(), L: []string{m.ilit(u.Len())}})
			return
		case *types.Pointer:
			if arr, ok := u.Elem().Underlying().(*types.Array); ok {
				e.bind(x, Val{T: x.Type(), L: []string{m.ilit(arr.Len())}})
				return
			}
		}
		v := e.havocVal(x.Type(), "len")
		e.emitAssert(-1, m.ile(z, v.L[0]))
		e.vals[x] = v
		return
	case "append":
		e.appendOp(x, st)
		return
	case "copy":
		e.copyOp(x, st)
		return
	case "min", "max":
		vs := []Val{}
		for _, a := range com.Args {
			vs = append(vs, e.val(a))
		}
		if isInteger(x.Type()) {
			bt := x.Type().Underlying().(*types.Basic)
			_, signed := intBits(bt)
			cur := vs[0].L[0]
			okAll := !vs[0].Bad
			for _, v := range vs[1:] {
				if v.Bad {
					okAll = false
					break
				}
				if b.Name() == "min" {
					cur = ite(m.lt(signed, v.L[0], cur), v.L[0], cur)
				} else {
					cur = ite(m.lt(signed, cur, v.L[0]), v.L[0], cur)
				}
			}
			if okAll {
				e.bind(x, Val{T: x.Type(), L: []string{cur}})
				return
			}
		}
		e.vals[x] = e.havocVal(x.Type(), "mm")
		return
	case "delete":
		return
	case "clear":
		if sl, ok := com.Args[0].Type().Underlying().(*types.Slice); ok {
			a := e.val(com.Args[0])
			sorts := map[Sort]bool{}
			e.allSorts(sl.Elem(), sorts)
			for s := range sorts {
				if a.Bad {
					e.havocSort(st, s)
				} else {
					e.havocObj(st, s, a.L[0])
				}
			}
		}
		return
	case "print", "println":
		return
	case "recover":
		e.abstract("recover")
		e.vals[x] = e.havocVal(x.Type(), "rec")
		return
	case "ssa:wrapnilchk":
		e.vals[x] = e.val(com.Args[0])
		return
	}
	e.abstract("builtin " + b.Name())
	if tup, ok := x.Type().(*types.Tuple); !ok || tup.Len() > 0 {
		e.vals[x] = e.havocVal(x.Type(), "bi")
	}
}

// appendOp models append(s, t...) precisely for single-slot element types.
func (e *Enc) appendOp(x *ssa.Call, st *State) {
	m := e.M
	com := x.Common()
	s := e.val(com.Args[0])
	sl := x.Type().Underlying().(*types.Slice)
	elem := sl.Elem()
	I := m.smtSort(SI)
	var t Val
	tIsString := false
	if len(com.Args) > 1 {
		t = e.val(com.Args[1])
		if bt, ok := com.Args[1].Type().Underlying().(*types.Basic); ok && bt.Info()&types.IsString != 0 {
			tIsString = true
		}
	}
	ls, okS := m.leafSorts(elem)
	if s.Bad || (len(com.Args) > 1 && t.Bad) || !okS || len(ls) != 1 || slots(elem) != 1 {
		// imprecise: fresh or in-place, contents unknown
		sorts := map[Sort]bool{}
		e.allSorts(elem, sorts)
		if s.Bad {
			for so := range sorts {
				e.havocSort(st, so)
			}
			e.vals[x] = e.havocVal(x.Type(), "app")
			return
		}
		var tl string
		if len(com.Args) > 1 && !t.Bad {
			if tIsString {
				tl = "(slen " + t.L[0] + ")"
			} else {
				tl = t.L[2]
			}
		} else {
			tl = e.decl(e.fresh("applen"), SI)
			e.emitAssert(-1, m.ile(m.ilit(0), tl))
		}
		n := m.iadd(s.L[2], tl)
		inplace := e.def(e.fresh("inplace"), SBool, m.ile(n, s.L[3]))
		nobj := e.newObj(st, "app")
		robj := e.def(e.fresh("app_robj"), SI, ite(inplace, s.L[0], nobj))
		// precise for multi-slot element types too: element-wise copy is expressed per slot below when possible
		if okS && slots(elem) == int64(len(ls)) && !(len(com.Args) > 1 && t.Bad) && !tIsString {
			k := m.ilit(slots(elem))
			roff := e.def(e.fresh("app_roff"), SI, ite(inplace, s.L[1], m.ilit(0)))
			bySort := map[Sort]bool{}
			for _, so := range ls {
				bySort[so] = true
			}
			var ss []string
			for so := range bySort {
				ss = append(ss, string(so))
			}
			sort.Strings(ss)
			for _, so0 := range ss {
				so := Sort(so0)
				h := e.heap(st, so)
				arr := e.fresh("A_app")
				e.emitDecl(fmt.Sprintf("(declare-const %s (Array %s %s))", arr, I, m.smtSort(so)))
				lo := m.iadd(roff, m.imul(s.L[2], k))
				hi := m.iadd(roff, m.imul(n, k))
				src := e.sel2(h, t.L[0], m.iadd(t.L[1], m.isub("j", lo)))
				keepInplace := e.sel2(h, s.L[0], "j")
				copied := e.sel2(h, s.L[0], m.iadd(s.L[1], "j"))
				body := ite(and(m.ile(lo, "j"), m.ilt("j", hi)), src, ite(inplace, keepInplace, ite(and(m.ile(m.ilit(0), "j"), m.ilt("j", m.imul(s.L[2], k))), copied, "(select "+arr+" j)")))
				e.emitAssert(-1, fmt.Sprintf("(forall ((j %s)) (! (= (select %s j) %s) :pattern ((select %s j))))", I, arr, body, arr))
				nh := e.fresh("H_" + so0)
				e.emitDecl(fmt.Sprintf("(define-fun %s () %s (store %s %s %s))", nh, e.heapSort(so), h, robj, arr))
				st.H[so] = nh
			}
			cp := e.decl(e.fresh("appcap"), SI)
			e.emitAssert(-1, m.ile(n, cp))
			e.bind(x, Val{T: x.Type(), L: []string{robj, roff, n, ite(inplace, s.L[3], cp)}})
			return
		}
		for so := range sorts {
			e.havocObj(st, so, robj)
		}
		cp := e.decl(e.fresh("appcap"), SI)
		e.emitAssert(-1, m.ile(n, cp))
		e.bind(x, Val{T: x.Type(), L: []string{robj, ite(inplace, s.L[1], m.ilit(0)), n, ite(inplace, s.L[3], cp)}})
		return
	}
	so := ls[0]
	var tl string
	if len(com.Args) > 1 {
		if tIsString {
			e.needStr()
			tl = "(slen " + t.L[0] + ")"
		} else {
			tl = t.L[2]
		}
	} else {
		tl = m.ilit(0)
	}
	n := e.def(e.fresh("app_n"), SI, m.iadd(s.L[2], tl))
	inplace := e.def(e.fresh("inplace"), SBool, m.ile(n, s.L[3]))
	nobj := e.newObj(st, "app")
	robj := e.def(e.fresh("app_robj"), SI, ite(inplace, s.L[0], nobj))
	roff := e.def(e.fresh("app_roff"), SI, ite(inplace, s.L[1], m.ilit(0)))
	h := e.heap(st, so)
	arr := e.fresh("A_app")
	e.emitDecl(fmt.Sprintf("(declare-const %s (Array %s %s))", arr, I, m.smtSort(so)))
	lo := m.iadd(roff, s.L[2])
	hi := m.iadd(roff, n)
	var src string
	if len(com.Args) > 1 {
		if tIsString {
			src = e.fromIndexSort("(sat "+t.L[0]+" "+m.isub("j", lo)+")", elem)
		} else {
			src = e.sel2(h, t.L[0], m.iadd(t.L[1], m.isub("j", lo)))
		}
	} else {
		src = e.zero(so)
	}
	keepInplace := e.sel2(h, s.L[0], "j")
	copied := e.sel2(h, s.L[0], m.iadd(s.L[1], "j"))
	body := ite(and(m.ile(lo, "j"), m.ilt("j", hi)), src, ite(inplace, keepInplace, ite(and(m.ile(m.ilit(0), "j"), m.ilt("j", s.L[2])), copied, "(select "+arr+" j)")))
	e.emitAssert(-1, fmt.Sprintf("(forall ((j %s)) (! (= (select %s j) %s) :pattern ((select %s j))))", I, arr, body, arr))
	nh := e.fresh("H_" + string(so))
	e.emitDecl(fmt.Sprintf("(define-fun %s () %s (store %s %s %s))", nh, e.heapSort(so), h, robj, arr))
	st.H[so] = nh
	cp := e.decl(e.fresh("appcap"), SI)
	e.emitAssert(-1, m.ile(n, cp))
	e.bind(x, Val{T: x.Type(), L: []string{robj, roff, n, ite(inplace, s.L[3], cp)}})
}

func (e *Enc) copyOp(x *ssa.Call, st *State) {
	m := e.M
	com := x.Common()
	d := e.val(com.Args[0])
	s := e.val(com.Args[1])
	sl := com.Args[0].Type().Underlying().(*types.Slice)
	elem := sl.Elem()
	I := m.smtSort(SI)
	ls, okS := m.leafSorts(elem)
	srcIsString := false
	if bt, ok := com.Args[1].Type().Underlying().(*types.Basic); ok && bt.Info()&types.IsString != 0 {
		srcIsString = true
	}
	if d.Bad || s.Bad || !okS || len(ls) != 1 || slots(elem) != 1 {
		sorts := map[Sort]bool{}
		e.allSorts(elem, sorts)
		for so := range sorts {
			if d.Bad {
				e.havocSort(st, so)
			} else {
				e.havocObj(st, so, d.L[0])
			}
		}
		v := e.havocVal(x.Type(), "cpn")
		if !d.Bad {
			e.emitAssert(-1, and(m.ile(m.ilit(0), v.L[0]), m.ile(v.L[0], d.L[2])))
		}
		e.vals[x] = v
		return
	}
	so := ls[0]
	var sl2 string
	if srcIsString {
		e.needStr()
		sl2 = "(slen " + s.L[0] + ")"
	} else {
		sl2 = s.L[2]
	}
	n := e.def(e.fresh("cp_n"), SI, ite(m.ilt(d.L[2], sl2), d.L[2], sl2))
	h := e.heap(st, so)
	arr := e.fresh("A_cp")
	e.emitDecl(fmt.Sprintf("(declare-const %s (Array %s %s))", arr, I, m.smtSort(so)))
	lo := d.L[1]
	hi := m.iadd(d.L[1], n)
	var src string
	if srcIsString {
		src = e.fromIndexSort("(sat "+s.L[0]+" "+m.isub("j", lo)+")", elem)
	} else {
		src = e.sel2(h, s.L[0], m.iadd(s.L[1], m.isub("j", lo)))
	}
	body := ite(and(m.ile(lo, "j"), m.ilt("j", hi)), src, e.sel2(h, d.L[0], "j"))
	e.emitAssert(-1, fmt.Sprintf("(forall ((j %s)) (! (= (select %s j) %s) :pattern ((select %s j))))", I, arr, body, arr))
	nh := e.fresh("H_" + string(so))
	e.emitDecl(fmt.Sprintf("(define-fun %s () %s (store %s %s %s))", nh, e.heapSort(so), h, d.L[0], arr))
	st.H[so] = nh
	e.bind(x, Val{T: x.Type(), L: []string{n}})
}

// directGhostMods: the ghost variables updated at the call sites of fn itself: those listed under `modifies` in the
// contracts of the functions it calls (statically, or through an interface method with a contract). Ghost variables are
// instrumentation of the call sites inside functions under contract: what an uncontracted callee does inside is not
// instrumented. A function under contract must list every ghost variable updated at its own call sites in its own
// `modifies` (obligation #ghost-frame), so that its callers see the update together with what its ensures say about it.
func (e *Enc) directGhostMods(fn *ssa.Function) map[string]bool {
	out := map[string]bool{}
	for _, b := range fn.Blocks {
		for _, ins := range b.Instrs {
			c, ok := ins.(ssa.CallInstruction)
			if !ok {
				continue
			}
			if _, isB := c.Common().Value.(*ssa.Builtin); isB {
				continue
			}
			_, key := e.calleeOf(c)
			ct := e.contractFor(key)
			if ct == nil {
				continue
			}
			for _, mc := range ct.Modifies {
				if id, ok := mc.Expr.(*ast.Ident); ok {
					if _, isGhost := e.CS.Ghosts[id.Name]; isGhost {
						out[id.Name] = true
					}
				}
			}
		}
	}
	return out
}
