package main

import (
	"encoding/json"
	"flag"
	"fmt"
	"os"
	"path/filepath"
	"regexp"
	"sort"
	"strings"
	"time"

	"golang.org/x/tools/go/ssa"
)

// PropGen is an additional (non-SMT or hand-assembled) obligation generator registered for a property.
type PropGen func(P *Program, CS *ContractSet, tier string) ([]*Obligation, []string, []string) // obligations, functions covered, assumptions

var propGens = map[string][]PropGen{}

// extraPkgs: packages to load for a property beyond those holding its contracts.
var propPkgs = map[string][]string{}

type knownFinding struct {
	Kind       string // known | fixed
	Prop       string
	Obligation string
	Text       string
}

func loadKnownFindings() []knownFinding {
	var out []knownFinding
	data, err := os.ReadFile(filepath.Join(verifDir(), "known_findings.txt"))
	if err != nil {
		return nil
	}
	for _, ln := range strings.Split(string(data), "\n") {
		ln = strings.TrimSpace(ln)
		if ln == "" || strings.HasPrefix(ln, "#") {
			continue
		}
		kf := knownFinding{Text: ln}
		switch {
		case strings.HasPrefix(ln, "known:"):
			kf.Kind = "known"
		case strings.HasPrefix(ln, "fixed:"):
			kf.Kind = "fixed"
		default:
			continue
		}
		for _, f := range strings.Fields(ln) {
			if strings.HasPrefix(f, "property=") {
				kf.Prop = strings.TrimPrefix(f, "property=")
			}
			if strings.HasPrefix(f, "obligation=") {
				kf.Obligation = strings.TrimPrefix(f, "obligation=")
			}
		}
		out = append(out, kf)
	}
	return out
}

type checkResult struct {
	Prop        string
	Obls        []*Obligation
	Funcs       []string
	Assumptions []string
	Trusted     []string
	Abstracted  []string
	Bounded     []string
	Errors      []string
	Missing     []string
	LoadS       float64
	EncodeS     float64
	SolveS      float64
}

func contractsForProp(CS *ContractSet, prop string) []string {
	var keys []string
	for _, k := range CS.Order {
		c := CS.Funcs[k]
		if c.Trusted != "" {
			continue
		}
		for _, p := range c.Props {
			if p == prop {
				keys = append(keys, k)
			}
		}
	}
	return keys
}

func runProperty(prop, tier string, timeoutS int) *checkResult {
	res := &checkResult{Prop: prop}
	t0 := time.Now()
	CS, err := loadContracts(repoDir(), verifDir(), repoPkgs)
	if err != nil {
		res.Errors = append(res.Errors, "contracts: "+err.Error())
		return res
	}
	keys := contractsForProp(CS, prop)
	if only := os.Getenv("GOVC_ONLY"); only != "" {
		// development aid: restrict the run to contracts whose key contains the substring (never used by registered commands)
		var ks []string
		for _, k := range keys {
			if strings.Contains(k, only) {
				ks = append(ks, k)
			}
		}
		keys = ks
	}
	pkgSet := map[string]bool{}
	for _, k := range keys {
		pkgSet[CS.Funcs[k].Pkg] = true
	}
	for _, p := range propPkgs[prop] {
		pkgSet[p] = true
	}
	if len(pkgSet) == 0 {
		res.Errors = append(res.Errors, "no contracts or generators registered for property "+prop)
		return res
	}
	var pkgs []string
	for p := range pkgSet {
		pkgs = append(pkgs, p)
	}
	sort.Strings(pkgs)
	P, err := load(pkgs...)
	if err != nil {
		res.Errors = append(res.Errors, "load: "+err.Error())
		return res
	}
	res.LoadS = time.Since(t0).Seconds()
	t1 := time.Now()
	assume := map[string]bool{}
	trusted := map[string]bool{}
	abstracted := map[string]bool{}
	for _, k := range keys {
		ct := CS.Funcs[k]
		fn := P.lookupFunc(ct.Pkg, ct.Func)
		if fn == nil {
			res.Missing = append(res.Missing, shortKey(k))
			res.Obls = append(res.Obls, &Obligation{Name: shortKey(k) + "#exists", Func: shortKey(k), Kind: "exists", Backend: "structural", OK: false,
				Detail: "function under contract not found in the current tree"})
			continue
		}
		r := encodeFunc(P, CS, fn, ct)
		res.Funcs = append(res.Funcs, r.Name)
		for _, e := range r.Errs {
			res.Errors = append(res.Errors, r.Name+": "+e)
		}
		for _, a := range r.Assumptions {
			assume[a] = true
		}
		for _, t := range r.Trusted {
			trusted[t] = true
		}
		for a, n := range r.Abstracted {
			abstracted[fmt.Sprintf("%s: %s (x%d)", r.Name, a, n)] = true
		}
		if r.Bounded {
			res.Bounded = append(res.Bounded, r.Name)
		}
		res.Obls = append(res.Obls, r.Obls...)
	}
	for _, g := range propGens[prop] {
		obls, funcs, assumptions := g(P, CS, tier)
		res.Obls = append(res.Obls, obls...)
		res.Funcs = append(res.Funcs, funcs...)
		for _, a := range assumptions {
			assume[a] = true
		}
	}
	res.EncodeS = time.Since(t1).Seconds()
	t2 := time.Now()
	dir := scratchDir("check-" + prop)
	dischargeAll(res.Obls, dir, timeoutS, tier == "thorough", 16)
	if os.Getenv("GOVC_KEEP") == "" {
		os.RemoveAll(dir) // failing obligations keep their query under replays/
	}
	res.SolveS = time.Since(t2).Seconds()
	for a := range assume {
		res.Assumptions = append(res.Assumptions, a)
	}
	for a := range trusted {
		res.Trusted = append(res.Trusted, a)
	}
	for a := range abstracted {
		res.Abstracted = append(res.Abstracted, a)
	}
	sort.Strings(res.Assumptions)
	sort.Strings(res.Trusted)
	sort.Strings(res.Abstracted)
	sort.Strings(res.Funcs)
	return res
}

func expectedFile(prop string) string {
	return filepath.Join(verifDir(), "expected", prop+".txt")
}

func readExpected(prop string) (map[string]bool, bool) {
	data, err := os.ReadFile(expectedFile(prop))
	if err != nil {
		return nil, false
	}
	m := map[string]bool{}
	for _, ln := range strings.Split(string(data), "\n") {
		ln = strings.TrimSpace(ln)
		if ln != "" && !strings.HasPrefix(ln, "#") {
			m[ln] = true
		}
	}
	return m, true
}

// cmdCheck: govc check <id> --tier quick|thorough
func cmdCheck(args []string) {
	fs := flag.NewFlagSet("check", flag.ExitOnError)
	tier := fs.String("tier", "quick", "quick|thorough")
	timeout := fs.Int("t", 0, "per-obligation timeout in seconds (default 10 quick / 60 thorough)")
	writeExpected := fs.Bool("write-expected", false, "rewrite expected/<id>.txt from this run (development only)")
	var pos []string
	for len(args) > 0 {
		if strings.HasPrefix(args[0], "-") {
			break
		}
		pos = append(pos, args[0])
		args = args[1:]
	}
	fs.Parse(args)
	pos = append(pos, fs.Args()...)
	if len(pos) != 1 {
		fmt.Fprintln(os.Stderr, "usage: govc check <property-id> [--tier quick|thorough]")
		os.Exit(2)
	}
	prop := pos[0]
	if *timeout == 0 {
		*timeout = 20 // (plus one retry at three times this for undecided goals: margin for a loaded machine)
		if *tier == "thorough" {
			*timeout = 60
		}
	}
	start := time.Now()
	res := runProperty(prop, *tier, *timeout)
	known := loadKnownFindings()
	// GOVC_OUT redirects evidence and replay files (used when checks are run against seeded/mutated trees, so that
	// the committed evidence always comes from the unchanged tree)
	outBase := verifDir()
	if d := os.Getenv("GOVC_OUT"); d != "" {
		outBase = d
	}
	os.MkdirAll(filepath.Join(outBase, "evidence"), 0o755)
	replayDir := filepath.Join(outBase, "replays", prop)
	os.RemoveAll(replayDir)

	var violations []string
	viol := func(name, why string, o *Obligation) {
		os.MkdirAll(replayDir, 0o755)
		path := filepath.Join(replayDir, sanitize(name)+".json")
		rep := map[string]interface{}{"property": prop, "obligation": name, "reason": why}
		suffix := " no-failing-input-found"
		if o != nil {
			rep["function"] = o.Func
			rep["kind"] = o.Kind
			rep["source"] = o.Pos
			rep["description"] = o.Descr
			rep["backend"] = o.Backend
			rep["verdict"] = o.Result.Verdict
			rep["solver"] = o.Result.Solver
			rep["solver_output"] = firstLines(o.Result.Output, 400)
			rep["detail"] = o.Detail
			rep["all_solvers"] = o.Result.All
			if o.SMT != "" {
				q := filepath.Join(replayDir, sanitize(name)+".smt2")
				os.WriteFile(q, []byte(o.SMT), 0o644)
				rep["query"] = q
			}
			if o.Result.Verdict == "sat" && len(o.Model) > 0 {
				rep["model"] = modelInputs(o.Model)
				if rr := tryReplay(prop, o, replayDir); rr != nil {
					rep["replay"] = rr
					if rr.Confirmed {
						suffix = ""
					}
				}
			}
		}
		data, _ := json.MarshalIndent(rep, "", " ")
		os.WriteFile(path, data, 0o644)
		violations = append(violations, fmt.Sprintf("VIOLATION property=%s replay=%s obligation=%s%s", prop, path, name, suffix))
	}

	for i, e := range res.Errors {
		viol(fmt.Sprintf("machinery-error-%d", i+1), e, nil)
		fmt.Println("machinery error:", e)
	}
	nObl, nDis, nBounded, nKnown := 0, 0, 0, 0
	perBackend := map[string]int{}
	var solverTime float64
	names := map[string]bool{}
	var samples []interface{}
	for _, o := range res.Obls {
		names[o.Name] = true
		ok := o.Discharged()
		if o.Backend == "" || o.Backend == "smt" {
			solverTime += o.Result.TimeS
		}
		if o.Bounded {
			nBounded++
		}
		if !ok {
			// known finding?
			isKnown := false
			for _, k := range known {
				if k.Kind == "known" && k.Prop == prop && k.Obligation == o.Name {
					isKnown = true
					fmt.Printf("KNOWN-FINDING: %s\n", strings.TrimSpace(strings.TrimPrefix(k.Text, "known:")))
				}
			}
			if isKnown {
				nKnown++
				continue
			}
			why := "obligation not discharged: " + o.Result.Verdict
			if o.Backend != "" && o.Backend != "smt" {
				why = "obligation fails (" + o.Backend + "): " + o.Detail
			}
			viol(o.Name, why, o)
			nObl++
			continue
		}
		nObl++
		nDis++
		be := o.Backend
		if be == "" || be == "smt" {
			be = o.Result.Solver
			if o.Expect == "sat" {
				be = "vacuity-guard:" + be
			}
		}
		perBackend[be]++
		if len(samples) < 6 && o.Kind != "cover" && o.Kind != "vacuity" {
			samples = append(samples, map[string]string{"obligation": o.Name, "kind": o.Kind, "backend": be, "descr": o.Descr, "source": o.Pos})
		}
	}
	// expected-obligation guard (vacuity): SMT and structural obligations by exact name; provenance obligations
	// (whose names contain source text and so change with harmless edits) by a minimum count.
	provCount := 0
	normNames := map[string]bool{}
	for _, o := range res.Obls {
		normNames[normalName(o.Name)] = true
		if o.Backend == "provenance" || volatileName(o.Name) {
			provCount++
		}
	}
	if exp, ok := readExpected(prop); ok && !*writeExpected {
		var missing []string
		for n := range exp {
			if strings.HasPrefix(n, "~min-provenance ") {
				var want int
				fmt.Sscanf(strings.TrimPrefix(n, "~min-provenance "), "%d", &want)
				if provCount < want {
					viol("provenance-obligation-count", fmt.Sprintf("only %d provenance obligations generated, at least %d expected", provCount, want), nil)
				}
				continue
			}
			if !names[n] && !normNames[normalName(n)] && !strings.Contains(n, "#auto-inv-") && !volatileName(n) {
				missing = append(missing, n)
			}
		}
		sort.Strings(missing)
		for _, n := range missing {
			viol(n, "obligation expected (expected/"+prop+".txt) but not generated from the current tree", nil)
		}
	} else if !*writeExpected {
		viol("expected-file-missing", "expected/"+prop+".txt not found: cannot guard against vacuous runs", nil)
	}
	if nObl == 0 {
		viol("no-obligations", "zero obligations generated", nil)
	}
	if *writeExpected {
		var ns []string
		for _, o := range res.Obls {
			if strings.Contains(o.Name, "#auto-inv-") {
				continue // which auto-proposed invariants survive depends on solver timing; the obligations that need them are guarded
			}
			if (o.Backend != "provenance" && !volatileName(o.Name)) || strings.Contains(o.Name, "#fresh@") {
				ns = append(ns, o.Name)
			}
		}
		if provCount > 0 {
			ns = append(ns, fmt.Sprintf("~min-provenance %d", provCount*9/10))
		}
		sort.Strings(ns)
		os.MkdirAll(filepath.Join(verifDir(), "expected"), 0o755)
		os.WriteFile(expectedFile(prop), []byte("# obligations that must be generated for "+prop+" (fewer = failure)\n"+strings.Join(ns, "\n")+"\n"), 0o644)
	}
	// thorough: cross-solver flags and selftest corpus
	var single []string
	var selftest map[string]interface{}
	if *tier == "thorough" {
		for _, o := range res.Obls {
			if (o.Backend == "" || o.Backend == "smt") && o.Expect == "" && o.Discharged() {
				n := 0
				for _, v := range o.Result.All {
					if v == "unsat" {
						n++
					}
				}
				if n < 2 {
					single = append(single, o.Name)
				}
			}
		}
		st, stViol := runSelftest(prop, *timeout)
		selftest = st
		for _, v := range stViol {
			viol("selftest:"+v, "must-fail mutant not detected: the generator or contracts lost strength", nil)
		}
	}
	wall := time.Since(start).Seconds()
	ev := map[string]interface{}{
		"property_id": prop,
		"tier":        *tier,
		"seed":        0,
		"level":       "proof",
		"wall_s":      wall,
		"violations":  len(violations),
		"assumptions": append(append([]string{}, res.Assumptions...), res.Abstracted...),
		"coverage": map[string]interface{}{
			"obligations":                nObl,
			"discharged":                 nDis,
			"checker_cmd":                fmt.Sprintf("bin/govc check %s --tier %s (VCs generated from %s working tree; z3 4.8.12 / z3-new 5.1.0 / cvc5 1.0.3 raced, timeout %ds)", prop, *tier, repoDir(), *timeout),
			"trusted_base":               append([]string{"go/ssa + go/types (x/tools v0.50.0) as the semantics of the source", "the govc VC generator (exercised by the must-fail corpus, not proved)", "SMT solvers z3 4.8.12, z3 5.1.0, cvc5 1.0.3"}, res.Trusted...),
			"functions_under_contract":   res.Funcs,
			"per_backend":                perBackend,
			"solver_time_s":              solverTime,
			"load_s":                     res.LoadS,
			"encode_s":                   res.EncodeS,
			"solve_wall_s":               res.SolveS,
			"bounded_obligations":        nBounded,
			"bounded_functions":          res.Bounded,
			"abstracted":                 res.Abstracted,
			"known_findings_suppressed":  nKnown,
			"single_solver_obligations":  single,
			"selftest":                   selftest,
			"samples":                    samples,
			"exhaustive":                 false,
			"explanation":                "every obligation is a universally quantified VC over all inputs of the function under contract; discharged = unsat of its negation",
			"missing_contracted_funcs":   res.Missing,
			"not_discharged_obligations": len(violations),
		},
	}
	if nDis == 0 {
		// keep the evidence schema-valid even on a broken run
		ev["level"] = "other"
		ev["coverage"].(map[string]interface{})["explanation"] = "no obligation discharged in this run"
	}
	data, _ := json.MarshalIndent(ev, "", " ")
	os.WriteFile(filepath.Join(outBase, "evidence", prop+".json"), data, 0o644)
	fmt.Printf("property %s tier %s: %d obligations, %d discharged, %d known findings, %d violations, %.1fs (load %.1fs, encode %.1fs, solve %.1fs)\n",
		prop, *tier, nObl, nDis, nKnown, len(violations), wall, res.LoadS, res.EncodeS, res.SolveS)
	for _, v := range violations {
		fmt.Println(v)
	}
	if len(violations) > 0 {
		os.Exit(1)
	}
}

// volatileName: structural obligations named after a source line (their names change with harmless edits of that
// line); they are guarded by count, not by name.
// safetyAnchored: SMT obligations whose name quotes source text (the indexed or sliced expression). A harmless rewrite
// of that expression renames or removes them, so they are guarded by the minimum count, not by name.
var safetyAnchored = regexp.MustCompile(`#(index|slice|typeassert|divzero|makeslice|shift|overflow|panic|cover|vacuity|dead)@`)

// normalName strips the ordinals that shift when a return statement, a back edge or a call site is added or removed
// elsewhere in the function: ".ret3", ".from2", "~2", and the call-site ordinal of "call-requires@callee.2.label".
var normRe = regexp.MustCompile(`(\.ret\d+|\.from\d+|~\d+)$`)
var normSite = regexp.MustCompile(`(#call-requires@.+?)\.\d+\.`)

func normalName(n string) string {
	for {
		m := normRe.ReplaceAllString(n, "")
		if m == n {
			break
		}
		n = m
	}
	return normSite.ReplaceAllString(n, "$1.")
}

func volatileName(n string) bool {
	if safetyAnchored.MatchString(n) {
		return true
	}
	for _, p := range []string{"syntax#eof-exit@", "syntax#refill-retry@", "syntax#refill-at-boundary@Parser", "syntax#bash-implies-bats@Parser", "syntax#bash-implies-bats@", "syntax#bats-only@", "syntax#recovery-only-on-error@Parser", "syntax#recovery-state@"} {
		if strings.HasPrefix(n, p) && !strings.HasSuffix(n, "-found") {
			return true
		}
	}
	return false
}

func modelInputs(m map[string]string) map[string]string {
	out := map[string]string{}
	for k, v := range m {
		if strings.HasPrefix(k, "p_") || strings.HasPrefix(k, "r_") {
			out[k] = v
		}
	}
	return out
}

// cmdReplay re-runs the query recorded in a replay file and prints the outcome.
func cmdReplay(args []string) {
	if len(args) != 1 {
		fmt.Fprintln(os.Stderr, "usage: govc replay <replay.json>")
		os.Exit(2)
	}
	data, err := os.ReadFile(args[0])
	if err != nil {
		fmt.Fprintln(os.Stderr, err)
		os.Exit(2)
	}
	var rep map[string]interface{}
	json.Unmarshal(data, &rep)
	fmt.Printf("property=%v obligation=%v\nreason=%v\nsource=%v\ndescription=%v\n", rep["property"], rep["obligation"], rep["reason"], rep["source"], rep["description"])
	// a recorded counterexample: run it again on the current tree of /repo
	if rp, ok := rep["replay"].(map[string]interface{}); ok {
		if src, _ := rp["test"].(string); src != "" {
			pkgDir, _ := rp["pkg_dir"].(string)
			expect, _ := rp["expect"].(string)
			noSafety, _ := rp["no_safety"].(bool)
			tf := filepath.Join(scratchDir("replay"), "again_replay_test.go")
			out := runReplayTest(src, pkgDir, repoDir(), tf)
			lines, ran, confirmed := replayOutcome(out, expect, noSafety)
			os.Remove(tf)
			fmt.Println(strings.Join(lines, "\n"))
			if !ran {
				fmt.Println("replay test did not run:\n" + firstLines(out, 30))
				os.Exit(2)
			}
			if confirmed {
				fmt.Println("the recorded input still fails on the current tree")
				os.Exit(1)
			}
			fmt.Println("the recorded input no longer fails on the current tree")
			return
		}
	}
	if q, ok := rep["query"].(string); ok {
		r := solveRace(q, 30, true)
		fmt.Printf("re-run of %s: verdict=%s solver=%s all=%v\n", q, r.Verdict, r.Solver, r.All)
		if r.Verdict == "sat" {
			fmt.Println(firstLines(r.Output, 60))
		}
		if r.Verdict != "unsat" {
			os.Exit(1)
		}
		return
	}
	os.Exit(1)
}

var _ = ssa.NewConst
