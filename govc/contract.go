package main

import (
	"fmt"
	"go/ast"
	"go/parser"
	"os"
	"path/filepath"
	"regexp"
	"strconv"
	"strings"
)

// Clause is one contract expression with an optional stable label.
type Clause struct {
	Label string
	Text  string
	Expr  ast.Expr
	Src   string // file:line
}

type SpecParam struct {
	Name string
	Type string // Go type expression text
}

// TypeInvClause is an object invariant of every object of a struct type (self denotes a pointer to it).
type TypeInvClause struct {
	Type    string
	Clause  Clause
	Assumed bool // astinv: an invariant of trees returned by the parser, assumed (no writer obligations)
}

// OnStoreClause: at every store to the named field (of any object of that struct type) or to an element of the named
// slice parameter, the expression must hold in the state just before the store; `value` denotes what is stored.
type OnStoreClause struct {
	Target string
	Clause Clause
}

// SpecFn is a pure ghost function expanded inline where used.
type SpecFn struct {
	Name   string
	Params []SpecParam
	Result string
	Body   ast.Expr
	Text   string
	Src    string
	// Uninterp: declared without body: an uninterpreted function (axioms may be given as lemmas/assumes).
	Uninterp bool
}

type Contract struct {
	Pkg       string // import path
	Func      string // Name, Type.Method, or qualified external "slices.Insert"
	Mode      string // "int" (default) or "bv"
	Returns   []string
	Params    []string
	Requires  []Clause
	Ensures   []Clause
	LoopInv   map[int][]Clause
	LoopDec   map[int]Clause
	Modifies  []Clause
	ModHeap   bool
	Pure      bool
	Trusted   string // non-empty: contract is an assumption (external / not verified), with reason
	Assumes   []Clause
	Replay    string
	NoSafety  bool
	Overflow  []string // variables/expressions with wrap obligations: "all" for every int op
	Unroll    int      // bounded unrolling of loops without invariant (function reported bounded)
	Props     []string // property ids this function's obligations count for
	Src       string
	Opaque    map[string]bool // callees whose contracts are ignored (havoc) in this function
	Notes     []string
	Fields    map[string][]string // classification of the receiver struct's fields by kind (reset contracts)
	Records   []Clause            // ghost instrumentation: assumed after calls, not checked against the body
	Stable    []string            // package-level variables assumed not to be modified by uncontracted calls
	Stateless bool                // result is a function of the argument values alone
	NoAuto    bool                // do not propose loop invariants automatically
	Wraps     bool                // signed 64-bit +,- wrap around exactly (integer mode)
	Dead      map[string]bool     // returns claimed unreachable ("ret6")
	TypeInv   []TypeInvClause     // objinv T [label] expr-over-self: assumed wherever a field of a *T that the clause mentions is addressed
	ObjInv    []Clause            // object invariants: assumed at entry and again after every call (all writers of the fields re-establish them: onstore obligations + the onstore-coverage obligation)
	OnStore   []OnStoreClause     // obligations attached to stores: "onstore Type.Field [label] expr" / "onstore name[*] [label] expr"
}

type ContractSet struct {
	Specs     map[string]*SpecFn   // by name (package-local names; trusted specs share the namespace)
	Funcs     map[string]*Contract // key: pkgpath + "." + Func ; for trusted: qualified name e.g. "slices.Insert"
	Order     []string
	Axioms    []Clause          // global axioms (trusted) about uninterpreted spec functions
	Ghosts    map[string]string // ghost variable name -> Go type
	GhostOrd  []string
	AxiomsSrc map[string]string
	Files     []string
}

func newContractSet() *ContractSet {
	return &ContractSet{Specs: map[string]*SpecFn{}, Funcs: map[string]*Contract{}, AxiomsSrc: map[string]string{}, Ghosts: map[string]string{}}
}

var labelRe = regexp.MustCompile(`^\[([A-Za-z0-9_.:\-]+)\]\s*`)

func parseClause(text, src string) (Clause, error) {
	c := Clause{Src: src}
	text = strings.TrimSpace(text)
	if m := labelRe.FindStringSubmatch(text); m != nil {
		c.Label = m[1]
		text = text[len(m[0]):]
	}
	c.Text = text
	e, err := parser.ParseExpr(text)
	if err != nil {
		return c, fmt.Errorf("%s: cannot parse %q: %v", src, text, err)
	}
	c.Expr = e
	return c, nil
}

// parseContractFile reads //@ lines. pkgPath is "" for trusted spec files (functions are then given qualified).
func (cs *ContractSet) parseContractFile(path, pkgPath string, trusted bool) error {
	data, err := os.ReadFile(path)
	if err != nil {
		return err
	}
	cs.Files = append(cs.Files, path)
	type rawClause struct {
		text string
		line int
	}
	var raws []rawClause
	for i, ln := range strings.Split(string(data), "\n") {
		t := strings.TrimLeft(ln, " \t")
		if !strings.HasPrefix(t, "//@") {
			continue
		}
		body := t[3:]
		if strings.TrimSpace(body) == "" {
			continue
		}
		// continuation: at least 3 spaces (or a tab) after //@
		if (strings.HasPrefix(body, "   ") || strings.HasPrefix(body, "\t")) && len(raws) > 0 {
			raws[len(raws)-1].text += " " + strings.TrimSpace(body)
			continue
		}
		raws = append(raws, rawClause{strings.TrimSpace(body), i + 1})
	}
	var cur *Contract
	for _, rc := range raws {
		src := fmt.Sprintf("%s:%d", filepath.Base(filepath.Dir(path))+"/"+filepath.Base(path), rc.line)
		kw, rest, _ := strings.Cut(rc.text, " ")
		rest = strings.TrimSpace(rest)
		switch kw {
		case "spec":
			sf, err := parseSpec(rest, src)
			if err != nil {
				return err
			}
			if _, dup := cs.Specs[sf.Name]; dup && !trusted {
				// allow identical redefinition across packages only if same text
				if cs.Specs[sf.Name].Text != sf.Text {
					return fmt.Errorf("%s: spec %s redefined differently", src, sf.Name)
				}
			}
			cs.Specs[sf.Name] = sf
		case "ghost":
			f := strings.Fields(rest)
			if len(f) != 2 {
				return fmt.Errorf("%s: ghost <name> <type>", src)
			}
			if _, dup := cs.Ghosts[f[0]]; !dup {
				cs.GhostOrd = append(cs.GhostOrd, f[0])
			}
			cs.Ghosts[f[0]] = f[1]
		case "axiom":
			c, err := parseClause(rest, src)
			if err != nil {
				return err
			}
			cs.Axioms = append(cs.Axioms, c)
		case "func":
			name := rest
			key := name
			if pkgPath != "" && !trusted {
				key = pkgPath + "." + name
			}
			if trusted && pkgPath != "" && !strings.Contains(name, "/") && strings.Count(name, ".") == 0 {
				key = pkgPath + "." + name
			}
			cur = &Contract{Pkg: pkgPath, Func: name, LoopInv: map[int][]Clause{}, LoopDec: map[int]Clause{}, Src: src, Opaque: map[string]bool{}}
			if trusted {
				cur.Trusted = "trusted spec " + filepath.Base(path)
			}
			if _, dup := cs.Funcs[key]; dup {
				return fmt.Errorf("%s: duplicate contract for %s", src, key)
			}
			cs.Funcs[key] = cur
			cs.Order = append(cs.Order, key)
		default:
			if cur == nil {
				return fmt.Errorf("%s: clause %q outside func", src, kw)
			}
			switch kw {
			case "mode":
				cur.Mode = rest
			case "returns", "params":
				r := strings.Trim(rest, "() ")
				var names []string
				for _, p := range strings.Split(r, ",") {
					p = strings.TrimSpace(p)
					if p == "" {
						continue
					}
					names = append(names, strings.Fields(p)[0])
				}
				if kw == "returns" {
					cur.Returns = names
				} else {
					cur.Params = names
				}
			case "records":
				c, err := parseClause(rest, src)
				if err != nil {
					return err
				}
				cur.Records = append(cur.Records, c)
			case "requires", "ensures", "assume":
				c, err := parseClause(rest, src)
				if err != nil {
					return err
				}
				switch kw {
				case "requires":
					cur.Requires = append(cur.Requires, c)
				case "ensures":
					cur.Ensures = append(cur.Ensures, c)
				case "assume":
					cur.Assumes = append(cur.Assumes, c)
				}
			case "loop":
				f := strings.Fields(rest)
				if len(f) < 3 {
					return fmt.Errorf("%s: bad loop clause", src)
				}
				n, err := strconv.Atoi(f[0])
				if err != nil {
					return fmt.Errorf("%s: bad loop ordinal", src)
				}
				body := strings.TrimSpace(strings.TrimPrefix(strings.TrimSpace(strings.TrimPrefix(rest, f[0])), f[1]))
				c, err := parseClause(body, src)
				if err != nil {
					return err
				}
				switch f[1] {
				case "invariant":
					cur.LoopInv[n] = append(cur.LoopInv[n], c)
				case "decreases":
					cur.LoopDec[n] = c
				default:
					return fmt.Errorf("%s: bad loop clause kind %s", src, f[1])
				}
			case "modifies":
				for _, part := range splitTopLevel(rest) {
					if part == "heap" {
						cur.ModHeap = true
						continue
					}
					txt := strings.ReplaceAll(part, "[*]", "[0]")
					c, err := parseClause(txt, src)
					if err != nil {
						return err
					}
					c.Text = part
					cur.Modifies = append(cur.Modifies, c)
				}
			case "pure":
				cur.Pure = true
			case "trusted":
				cur.Trusted = strings.Trim(rest, `"`)
				if cur.Trusted == "" {
					cur.Trusted = "assumed"
				}
			case "replay":
				cur.Replay = rest
			case "stateless":
				// pure, and the result depends on the arguments only (not on memory): plain data in, plain data out
				cur.Pure = true
				cur.Stateless = true
			case "noauto":
				// no automatically proposed loop invariants: everything the proof needs is written in the contract
				cur.NoAuto = true
			case "wraps":
				// integer mode, but signed 64-bit + and - are modelled exactly (two's complement wrap-around)
				cur.Wraps = true
			case "nosafety":
				cur.NoSafety = true
			case "objinv":
				if f := strings.SplitN(rest, " ", 2); len(f) == 2 && !strings.HasPrefix(f[0], "[") && !strings.ContainsAny(f[0], "()=<>&|!.") {
					c, err := parseClause(strings.TrimSpace(f[1]), src)
					if err != nil {
						return err
					}
					cur.TypeInv = append(cur.TypeInv, TypeInvClause{Type: f[0], Clause: c})
					break
				}
				c, err := parseClause(rest, src)
				if err != nil {
					return err
				}
				cur.ObjInv = append(cur.ObjInv, c)
			case "astinv":
				// astinv T [label] expr-over-self: like objinv T, but assumed outright: an invariant of every tree the
				// parser returns ("programs that parse"), which hand-built trees need not satisfy
				f := strings.SplitN(rest, " ", 2)
				if len(f) != 2 {
					return fmt.Errorf("%s: astinv <type> [label] expr", src)
				}
				c, err := parseClause(strings.TrimSpace(f[1]), src)
				if err != nil {
					return err
				}
				cur.TypeInv = append(cur.TypeInv, TypeInvClause{Type: f[0], Clause: c, Assumed: true})
			case "onstore":
				f := strings.SplitN(rest, " ", 2)
				if len(f) != 2 {
					return fmt.Errorf("%s: onstore <target> [label] expr", src)
				}
				c, err := parseClause(strings.TrimSpace(f[1]), src)
				if err != nil {
					return err
				}
				cur.OnStore = append(cur.OnStore, OnStoreClause{Target: f[0], Clause: c})
			case "dead":
				// dead retN "reason": that return is claimed unreachable; the claim is an obligation (instead of the
				// reachability guard that every other return gets)
				f := strings.Fields(rest)
				if len(f) > 0 {
					if cur.Dead == nil {
						cur.Dead = map[string]bool{}
					}
					cur.Dead[f[0]] = true
				}
			case "overflow":
				cur.Overflow = append(cur.Overflow, strings.Fields(rest)...)
				if len(cur.Overflow) == 0 {
					cur.Overflow = []string{"all"}
				}
			case "unroll":
				n, err := strconv.Atoi(rest)
				if err != nil {
					return fmt.Errorf("%s: bad unroll", src)
				}
				cur.Unroll = n
			case "props":
				cur.Props = append(cur.Props, strings.Fields(strings.ReplaceAll(rest, ",", " "))...)
			case "opaque":
				for _, f := range strings.Fields(strings.ReplaceAll(rest, ",", " ")) {
					cur.Opaque[f] = true
				}
			case "note":
				cur.Notes = append(cur.Notes, rest)
			case "stable":
				cur.Stable = append(cur.Stable, strings.Fields(strings.ReplaceAll(rest, ",", " "))...)
			case "fields":
				kind, names, ok := strings.Cut(rest, ":")
				if !ok {
					return fmt.Errorf("%s: fields <kind>: names", src)
				}
				if cur.Fields == nil {
					cur.Fields = map[string][]string{}
				}
				kind = strings.TrimSpace(kind)
				cur.Fields[kind] = append(cur.Fields[kind], strings.Fields(strings.ReplaceAll(names, ",", " "))...)
			default:
				return fmt.Errorf("%s: unknown clause keyword %q", src, kw)
			}
		}
	}
	return nil
}

func splitTopLevel(s string) []string {
	var parts []string
	depth := 0
	start := 0
	for i, r := range s {
		switch r {
		case '(', '[', '{':
			depth++
		case ')', ']', '}':
			depth--
		case ',':
			if depth == 0 {
				parts = append(parts, strings.TrimSpace(s[start:i]))
				start = i + 1
			}
		}
	}
	if strings.TrimSpace(s[start:]) != "" {
		parts = append(parts, strings.TrimSpace(s[start:]))
	}
	return parts
}

// parseSpec parses "name(a T, b U) R = expr" or "name(a T) R" (uninterpreted).
func parseSpec(text, src string) (*SpecFn, error) {
	sf := &SpecFn{Text: text, Src: src}
	open := strings.Index(text, "(")
	if open < 0 {
		return nil, fmt.Errorf("%s: bad spec", src)
	}
	sf.Name = strings.TrimSpace(text[:open])
	// find matching close paren
	depth := 0
	cl := -1
	for i := open; i < len(text); i++ {
		if text[i] == '(' {
			depth++
		} else if text[i] == ')' {
			depth--
			if depth == 0 {
				cl = i
				break
			}
		}
	}
	if cl < 0 {
		return nil, fmt.Errorf("%s: bad spec parens", src)
	}
	var pending []string
	for _, p := range splitTopLevel(text[open+1 : cl]) {
		f := strings.SplitN(strings.TrimSpace(p), " ", 2)
		if len(f) == 1 {
			pending = append(pending, f[0])
			continue
		}
		for _, n := range pending {
			sf.Params = append(sf.Params, SpecParam{n, strings.TrimSpace(f[1])})
		}
		pending = nil
		sf.Params = append(sf.Params, SpecParam{f[0], strings.TrimSpace(f[1])})
	}
	rest := strings.TrimSpace(text[cl+1:])
	res, body, hasBody := strings.Cut(rest, "=")
	// careful: result type cannot contain '='; body may contain '==', so Cut at first '=' is right only
	// if result type has none (true for Go types).
	sf.Result = strings.TrimSpace(res)
	if !hasBody {
		sf.Uninterp = true
		return sf, nil
	}
	e, err := parser.ParseExpr(strings.TrimSpace(body))
	if err != nil {
		return nil, fmt.Errorf("%s: spec %s body: %v", src, sf.Name, err)
	}
	sf.Body = e
	return sf, nil
}

// loadContracts loads /verif/trusted/*.spec and <repo>/<pkg>/verif_contracts.go for the given packages.
func loadContracts(repo string, verifDir string, pkgs map[string]string) (*ContractSet, error) {
	cs := newContractSet()
	tfiles, _ := filepath.Glob(filepath.Join(verifDir, "trusted", "*.spec"))
	for _, f := range tfiles {
		if err := cs.parseContractFile(f, "", true); err != nil {
			return nil, err
		}
	}
	for pkgPath, rel := range pkgs {
		f := filepath.Join(repo, rel, "verif_contracts.go")
		if _, err := os.Stat(f); err != nil {
			continue
		}
		if err := cs.parseContractFile(f, pkgPath, false); err != nil {
			return nil, err
		}
	}
	return cs, nil
}
