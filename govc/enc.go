package main

import (
	"fmt"
	"go/ast"
	"go/constant"
	"go/token"
	"go/types"
	"math/big"
	"os"
	"regexp"
	"sort"
	"strings"

	"golang.org/x/tools/go/ast/astutil"
	"golang.org/x/tools/go/ssa"
)

type item struct {
	text  string
	block int  // -1 global
	isDef bool // declarations/definitions are always included
}

// State is the mutable-store part of the symbolic state at a program point.
type State struct {
	H     map[Sort]string // heap component per leaf sort: (Array I (Array I sort))
	Alloc string          // allocation watermark (objects with id >= Alloc do not exist yet)
}

func (s *State) clone() *State {
	n := &State{H: map[Sort]string{}, Alloc: s.Alloc}
	for k, v := range s.H {
		n.H[k] = v
	}
	return n
}

type loopInfo struct {
	head        *ssa.BasicBlock
	ordinal     int
	contractOrd int // ordinal of the contract's clause group bound to this loop when it differs (remapLoops); -1: none
	blocks      map[int]bool
	backs       []*ssa.BasicBlock // sources of back edges
	// state and substitution base captured at head
	headState   *State
	preState    *State
	decTerm     string
	decUnsigned bool
	cands       []candidate
}

// Enc encodes one function into passive-form SMT and collects its obligations.
type Enc struct {
	P   *Program
	CS  *ContractSet
	Fn  *ssa.Function
	Ct  *Contract
	M   Mode
	Pkg *ssa.Package

	pre   []string // prelude: sorts, global uninterpreted functions, axioms
	preOK map[string]bool
	items []item
	vals  map[ssa.Value]Val
	reach map[int]string
	endSt map[int]*State
	obls  []*Obligation
	n     int

	knownSorts     map[Sort]bool // discovered in pass 1, pre-declared in pass 2
	pass           int
	strLits        map[string]string
	typeIDs        map[string]int
	typeOfID       map[int]types.Type
	globalIDs      map[string]int
	abstracted     map[string]int
	usedTrusted    map[string]bool
	assumptions    map[string]bool
	occ            map[string]int // occurrence counters for obligation names
	loops          map[int]*loopInfo
	loopOf         map[int][]*loopInfo // block index -> loops containing it (outermost first)
	dbg            map[string][]dbgRef // source name -> debug refs
	entry          *State
	params         map[string]Val
	curBlock       int
	retOrd         int
	hasDefer       bool
	noSafety       bool
	inlineSubst    map[ssa.Value]Val // substitution used while re-evaluating loop-head values
	inlineHead     *ssa.BasicBlock
	inlineState    *State
	fnName         string
	errs           []string
	bounded        bool
	curState       *State
	nonEsc         map[ssa.Value]bool
	curInstr       ssa.Instruction
	freshDerived   map[ssa.Value][]ssa.Value
	freshEsc       map[ssa.Value][]ssa.Instruction // fresh heap values -> instructions at which they (or an alias) escape
	blockReachT    map[int]map[int]bool            // CFG reachability between blocks (reflexive only through cycles)
	disabledCands  map[string]bool
	inContractEval bool
	mathInts       bool // mode math: integers are unbounded mathematical integers (no range facts assumed)
	rc             *ReplayCtx
	// explicit quantifier instantiation (see instancesFor)
	sawHypAll    bool
	noSkolem     bool
	skolemBounds map[string][2]string
	skolemOf     map[string]string // plain goal -> skolemised goal
	insts        []instantiator
}

type dbgRef struct {
	block  int
	val    ssa.Value
	isAddr bool
	pos    token.Pos
}

func (e *Enc) fresh(prefix string) string {
	e.n++
	return fmt.Sprintf("%s!%d", prefix, e.n)
}

func (e *Enc) emitDecl(text string) {
	e.items = append(e.items, item{text, -1, true})
}

func (e *Enc) emitAssert(block int, term string) {
	if term == "true" {
		return
	}
	e.items = append(e.items, item{"(assert " + term + ")", block, false})
}

func (e *Enc) prelude(key, text string) {
	if e.preOK[key] {
		return
	}
	e.preOK[key] = true
	e.pre = append(e.pre, text)
}

func (e *Enc) decl(name string, s Sort) string {
	if s == SStr {
		e.needStr()
	}
	e.emitDecl(fmt.Sprintf("(declare-const %s %s)", name, e.M.smtSort(s)))
	return name
}

func (e *Enc) def(name string, s Sort, term string) string {
	// avoid defining trivial aliases
	if isAtom(term) {
		return term
	}
	e.emitDecl(fmt.Sprintf("(define-fun %s () %s %s)", name, e.M.smtSort(s), term))
	return name
}

func isAtom(t string) bool {
	if t == "" {
		return false
	}
	if t[0] == '(' {
		return strings.HasPrefix(t, "(_ bv") && strings.Count(t, "(") == 1 || (strings.HasPrefix(t, "(- ") && strings.Count(t, "(") == 1)
	}
	return !strings.ContainsAny(t, " ")
}

func (e *Enc) heapSort(s Sort) string {
	return fmt.Sprintf("(Array %s (Array %s %s))", e.M.smtSort(SI), e.M.smtSort(SI), e.M.smtSort(s))
}

func (e *Enc) heap(st *State, s Sort) string {
	if h, ok := st.H[s]; ok {
		return h
	}
	// first touch: entry version (pass 1 only; pass 2 has all sorts pre-declared)
	if s == SStr {
		e.needStr()
	}
	e.knownSorts[s] = true
	name := "H_" + string(s) + "_0"
	if !e.preOK["heap0:"+string(s)] {
		e.preOK["heap0:"+string(s)] = true
		e.emitDecl(fmt.Sprintf("(declare-const %s %s)", name, e.heapSort(s)))
	}
	st.H[s] = name
	return name
}

func (e *Enc) zero(s Sort) string {
	switch s {
	case SBool:
		return "false"
	case SStr:
		e.needStr()
		return "str_empty"
	case SReal:
		return "0.0"
	}
	return e.M.lit(s, big.NewInt(0))
}

func (e *Enc) needStr() {
	I := e.M.smtSort(SI)
	e.prelude("Str", "(declare-sort Str 0)\n(declare-fun slen (Str) "+I+")\n(declare-fun sat (Str "+I+") "+I+")\n(declare-const str_empty Str)\n"+
		"(assert (= (slen str_empty) "+e.M.ilit(0)+"))\n"+
		"(assert (forall ((s Str)) (! "+e.M.ile(e.M.ilit(0), "(slen s)")+" :pattern ((slen s)))))\n"+
		"(assert (forall ((s Str) (i "+I+")) (! (and "+e.M.ile(e.M.ilit(0), "(sat s i)")+" "+e.M.ile("(sat s i)", e.M.ilit(255))+") :pattern ((sat s i)))))\n"+
		// extensionality: equal length and bytes imply equal strings
		"(declare-fun sdiff (Str Str) "+I+")\n"+
		"(assert (forall ((a Str) (b Str)) (! (=> (and (= (slen a) (slen b)) (not (and "+e.M.ile(e.M.ilit(0), "(sdiff a b)")+" "+e.M.ilt("(sdiff a b)", "(slen a)")+" (not (= (sat a (sdiff a b)) (sat b (sdiff a b))))))) (= a b)) :pattern ((sdiff a b)))))")
}

func (e *Enc) needScat() {
	e.usedTrusted["axioms: strings as an uninterpreted sort with length, bytes, concatenation and slicing (algebraic facts in govc/enc.go)"] = true
	e.needStr()
	I := e.M.smtSort(SI)
	e.prelude("scat", "(declare-fun scat (Str Str) Str)\n"+
		"(assert (forall ((a Str) (b Str)) (! (= (slen (scat a b)) "+e.M.iadd("(slen a)", "(slen b)")+") :pattern ((scat a b)))))\n"+
		"(assert (forall ((a Str) (b Str) (i "+I+")) (! (= (sat (scat a b) i) (ite "+e.M.ilt("i", "(slen a)")+" (sat a i) (sat b "+e.M.isub("i", "(slen a)")+"))) :pattern ((sat (scat a b) i)))))\n"+
		// the empty string is the unit of concatenation
		"(assert (forall ((a Str)) (! (= (scat a str_empty) a) :pattern ((scat a str_empty)))))\n"+
		"(assert (forall ((a Str)) (! (= (scat str_empty a) a) :pattern ((scat str_empty a)))))")
}

func (e *Enc) needSsub() {
	e.needStr()
	I := e.M.smtSort(SI)
	e.prelude("ssub", "(declare-fun ssub (Str "+I+" "+I+") Str)\n"+
		"(assert (forall ((a Str) (i "+I+") (j "+I+")) (! (=> (and "+e.M.ile(e.M.ilit(0), "i")+" "+e.M.ile("i", "j")+" "+e.M.ile("j", "(slen a)")+") (= (slen (ssub a i j)) "+e.M.isub("j", "i")+")) :pattern ((ssub a i j)))))\n"+
		"(assert (forall ((a Str) (i "+I+") (j "+I+") (k "+I+")) (! (=> (and "+e.M.ile(e.M.ilit(0), "i")+" "+e.M.ile("j", "(slen a)")+" "+e.M.ile(e.M.ilit(0), "k")+" "+e.M.ilt("k", e.M.isub("j", "i"))+") (= (sat (ssub a i j) k) (sat a "+e.M.iadd("i", "k")+"))) :pattern ((sat (ssub a i j) k)))))\n"+
		// the whole string is a slice of itself
		"(assert (forall ((a Str)) (! (= (ssub a "+e.M.ilit(0)+" (slen a)) a) :pattern ((ssub a "+e.M.ilit(0)+" (slen a))))))\n"+
		// a slice of a slice is a slice of the original
		"(assert (forall ((a Str) (i "+I+") (j "+I+") (k "+I+") (l "+I+")) (! (=> (and "+e.M.ile(e.M.ilit(0), "i")+" "+e.M.ile("i", "j")+" "+e.M.ile("j", "(slen a)")+" "+e.M.ile(e.M.ilit(0), "k")+" "+e.M.ile("k", "l")+" "+e.M.ile("l", e.M.isub("j", "i"))+") (= (ssub (ssub a i j) k l) (ssub a "+e.M.iadd("i", "k")+" "+e.M.iadd("i", "l")+"))) :pattern ((ssub (ssub a i j) k l)))))")
}

func (e *Enc) strLit(s string) string {
	e.needStr()
	if n, ok := e.strLits[s]; ok {
		return n
	}
	if s == "" {
		return "str_empty"
	}
	name := fmt.Sprintf("strlit_%d", len(e.strLits))
	e.strLits[s] = name
	var b strings.Builder
	fmt.Fprintf(&b, "(declare-const %s Str) ; %q\n", name, s)
	fmt.Fprintf(&b, "(assert (= (slen %s) %s))\n", name, e.M.ilit(int64(len(s))))
	for i := 0; i < len(s) && i < 64; i++ {
		fmt.Fprintf(&b, "(assert (= (sat %s %s) %s))\n", name, e.M.ilit(int64(i)), e.M.ilit(int64(s[i])))
	}
	e.pre = append(e.pre, b.String())
	return name
}

func (e *Enc) typeID(t types.Type) int {
	k := types.TypeString(t, nil)
	if id, ok := e.typeIDs[k]; ok {
		if e.typeOfID[id] == nil {
			e.typeOfID[id] = t
		}
		return id
	}
	id := len(e.typeIDs) + 1
	e.typeIDs[k] = id
	e.typeOfID[id] = t
	return id
}

// typeIDKey: the id of the named type whose types.TypeString is k (same numbering as typeID).
func (e *Enc) typeIDKey(k string) int {
	if id, ok := e.typeIDs[k]; ok {
		return id
	}
	id := len(e.typeIDs) + 1
	e.typeIDs[k] = id
	return id
}

func (e *Enc) abstract(what string) {
	e.abstracted[what]++
}

// havocVal creates a fresh unconstrained value of type t.
func (e *Enc) havocVal(t types.Type, prefix string) Val {
	ls, ok := e.M.leafSorts(t)
	if !ok {
		return Val{T: t, Bad: true}
	}
	v := Val{T: t}
	base := e.fresh(prefix)
	for i, s := range ls {
		v.L = append(v.L, e.decl(fmt.Sprintf("%s_%d", base, i), s))
	}
	return v
}

// zeroVal is the zero value of type t.
func (e *Enc) zeroVal(t types.Type) Val {
	ls, ok := e.M.leafSorts(t)
	if !ok {
		return Val{T: t, Bad: true}
	}
	v := Val{T: t}
	for _, s := range ls {
		v.L = append(v.L, e.zero(s))
	}
	return v
}

// typeFacts returns constraints every well-typed runtime value of type v.T satisfies.
func (e *Enc) typeFacts(v Val, st *State) string {
	if v.Bad || v.T == nil {
		return "true"
	}
	var fs []string
	e.typeFactsRec(v.T, v.L, st, &fs)
	return and(fs...)
}

func (e *Enc) typeFactsRec(t types.Type, L []string, st *State, fs *[]string) int {
	m := e.M
	z := m.ilit(0)
	switch u := t.Underlying().(type) {
	case *types.Basic:
		if u.Info()&types.IsString != 0 {
			// strings of the running program are shorter than 2^62 bytes
			e.needStr()
			*fs = append(*fs, m.ile("(slen "+L[0]+")", m.ilit(4611686018427387904)))
		}
		if u.Info()&types.IsInteger != 0 && m == ModeInt && !e.mathInts {
			bits, signed := intBits(u)
			if bits > 0 {
				lo, hi := new(big.Int), new(big.Int)
				if signed {
					lo.Neg(new(big.Int).Lsh(big.NewInt(1), uint(bits-1)))
					hi.Sub(new(big.Int).Lsh(big.NewInt(1), uint(bits-1)), big.NewInt(1))
				} else {
					hi.Sub(new(big.Int).Lsh(big.NewInt(1), uint(bits)), big.NewInt(1))
				}
				*fs = append(*fs, "(<= "+m.lit(SI, lo)+" "+L[0]+")", "(<= "+L[0]+" "+m.lit(SI, hi)+")")
			}
		}
		return 1
	case *types.Pointer:
		*fs = append(*fs, m.ile(z, L[0]), m.ilt(L[0], st.Alloc), m.ile(z, L[1]), implies(eq(L[0], z), eq(L[1], z)), e.notGhost(L[0]))
		if id := e.standaloneTypeID(u.Elem()); id != 0 {
			// a struct type that is never stored by value inside another object: a pointer to it points at the start
			// of an allocation of exactly that type, so pointers to different such types never overlap
			e.prelude("atype", "(declare-fun atype ("+m.smtSort(SI)+") "+m.smtSort(SI)+")")
			e.assumptions["typed allocations: a struct type that no loaded package stores by value inside another value is only ever pointed at as a whole allocation (no unsafe pointer arithmetic)"] = true
			*fs = append(*fs, implies(not(eq(L[0], z)), and(eq(L[1], z), eq("(atype "+L[0]+")", m.ilit(int64(id))))))
		} else if ids := e.layoutTypeIDs(u.Elem()); len(ids) > 0 {
			// a struct type that other named structs hold by value: the allocation is of the type itself or of one of
			// the (named) types that contain it
			e.prelude("atype", "(declare-fun atype ("+m.smtSort(SI)+") "+m.smtSort(SI)+")")
			e.assumptions["typed allocations: a struct type that no loaded package stores by value inside another value is only ever pointed at as a whole allocation (no unsafe pointer arithmetic)"] = true
			var alts []string
			for _, id := range ids {
				alts = append(alts, eq("(atype "+L[0]+")", m.ilit(int64(id))))
			}
			*fs = append(*fs, implies(not(eq(L[0], z)), or(alts...)))
		}
		return 2
	case *types.Slice:
		*fs = append(*fs, m.ile(z, L[0]), m.ilt(L[0], st.Alloc), m.ile(z, L[1]), m.ile(z, L[2]), m.ile(L[2], L[3]),
			implies(eq(L[0], z), and(eq(L[1], z), eq(L[3], z))), e.notGhost(L[0]))
		if m == ModeInt {
			*fs = append(*fs, "(<= "+L[3]+" 4611686018427387904)")
		}
		if ids := e.sliceLayoutTypeIDs(u.Elem()); len(ids) > 0 {
			// the backing array is an allocation of elements of this type, or lies inside one of the named structs that
			// hold an array of them by value
			e.prelude("atype", "(declare-fun atype ("+m.smtSort(SI)+") "+m.smtSort(SI)+")")
			e.assumptions["typed allocations: a struct type that no loaded package stores by value inside another value is only ever pointed at as a whole allocation (no unsafe pointer arithmetic)"] = true
			var alts []string
			for _, id := range ids {
				alts = append(alts, eq("(atype "+L[0]+")", m.ilit(int64(id))))
			}
			*fs = append(*fs, implies(not(eq(L[0], z)), or(alts...)))
		}
		return 4
	case *types.Interface:
		// payload: a pointer (existing object) or a boxed value (negative ids, see makeInterface)
		*fs = append(*fs, m.ile(z, L[0]), m.ilt(L[1], st.Alloc), m.ile(z, L[2]), implies(eq(L[0], z), and(eq(L[1], z), eq(L[2], z))), e.notGhost(L[1]))
		return 3
	case *types.Map, *types.Chan, *types.Signature:
		*fs = append(*fs, m.ile(z, L[0]), m.ilt(L[0], st.Alloc), e.notGhost(L[0]))
		return 1
	case *types.Struct:
		k := 0
		for i := 0; i < u.NumFields(); i++ {
			k += e.typeFactsRec(u.Field(i).Type(), L[k:], st, fs)
		}
		return k
	case *types.Tuple:
		k := 0
		for i := 0; i < u.Len(); i++ {
			k += e.typeFactsRec(u.At(i).Type(), L[k:], st, fs)
		}
		return k
	case *types.Array:
		k := 0
		for i := int64(0); i < u.Len(); i++ {
			k += e.typeFactsRec(u.Elem(), L[k:], st, fs)
		}
		return k
	}
	ls, _ := m.leafSorts(t)
	return len(ls)
}

// allSorts collects the leaf sorts occurring in memory of type t (without enumerating array elements).
func (e *Enc) allSorts(t types.Type, out map[Sort]bool) {
	if isStringsBuilder(t) {
		out[SStr] = true // ghost: the text written so far lives in the Str cell at the builder's address
	}
	switch u := t.Underlying().(type) {
	case *types.Struct:
		for i := 0; i < u.NumFields(); i++ {
			e.allSorts(u.Field(i).Type(), out)
		}
	case *types.Array:
		e.allSorts(u.Elem(), out)
	default:
		if ls, ok := e.M.leafSorts(t); ok {
			for _, s := range ls {
				out[s] = true
			}
		}
	}
}

func isStringsBuilder(t types.Type) bool {
	n, ok := types.Unalias(t).(*types.Named)
	return ok && n.Obj().Pkg() != nil && n.Obj().Pkg().Path() == "strings" && n.Obj().Name() == "Builder"
}

// needUTF8 declares the decoding functions of unicode/utf8 (and of range-over-string) with the facts the contracts use:
// utf8r(s,k), utf8w(s,k): rune and width decoded at byte k; runestr(r): the encoding WriteRune appends.
// Trusted (documented behaviour of the standard library): an ASCII byte decodes to itself with width 1; any other byte
// starts a rune >= 0x80 of width 1..4 all of whose bytes are >= 0x80; a valid encoding is reproduced by runestr; an
// invalid byte decodes to (RuneError, 1), and runestr(RuneError) is the three bytes EF BF BD.
func (e *Enc) needUTF8() {
	e.usedTrusted["axioms: unicode/utf8 decoding and encoding facts (utf8r, utf8w, utf8valid, runestr; see needUTF8 in govc/enc.go)"] = true
	e.needStr()
	e.needSsub()
	m := e.M
	I := m.smtSort(SI)
	z := func(n int64) string { return m.ilit(n) }
	e.prelude("utf8", "(declare-fun utf8r (Str "+I+") "+I+")\n(declare-fun utf8w (Str "+I+") "+I+")\n(declare-fun runestr ("+I+") Str)\n(declare-fun utf8valid (Str "+I+") Bool)\n"+
		"(assert (forall ((s Str) (k "+I+")) (! (=> (and "+m.ile(z(0), "k")+" "+m.ilt("k", "(slen s)")+") (and "+m.ile(z(1), "(utf8w s k)")+" "+m.ile("(utf8w s k)", z(4))+" "+m.ile(m.iadd("k", "(utf8w s k)"), "(slen s)")+
		" (=> "+m.ilt("(sat s k)", z(128))+" (and (= (utf8r s k) (sat s k)) (= (utf8w s k) "+z(1)+") (utf8valid s k)))"+
		" (=> "+m.ile(z(128), "(sat s k)")+" (and "+m.ile(z(128), "(utf8r s k)")+" "+m.ile("(utf8r s k)", z(1114111))+"))"+
		" (=> (not (utf8valid s k)) (and (= (utf8r s k) "+z(65533)+") (= (utf8w s k) "+z(1)+")))"+
		" (=> (utf8valid s k) (= (runestr (utf8r s k)) (ssub s k "+m.iadd("k", "(utf8w s k)")+")))"+
		")) :pattern ((utf8w s k)) :pattern ((utf8r s k)))))\n"+
		"(assert (forall ((s Str) (k "+I+") (j "+I+")) (! (=> (and "+m.ile(z(0), "k")+" "+m.ilt("k", "(slen s)")+" "+m.ile(z(128), "(sat s k)")+" "+m.ile("k", "j")+" "+m.ilt("j", m.iadd("k", "(utf8w s k)"))+") "+m.ile(z(128), "(sat s j)")+") :pattern ((utf8w s k) (sat s j)))))\n"+
		"(assert (forall ((r "+I+")) (! (and "+m.ile(z(1), "(slen (runestr r))")+" "+m.ile("(slen (runestr r))", z(4))+
		" (=> (and "+m.ile(z(0), "r")+" "+m.ilt("r", z(128))+") (and (= (slen (runestr r)) "+z(1)+") (= (sat (runestr r) "+z(0)+") r)))"+
		" (=> (not (and "+m.ile(z(0), "r")+" "+m.ilt("r", z(128))+")) (and "+m.ile(z(128), "(sat (runestr r) "+z(0)+")")+" "+m.ile(z(2), "(slen (runestr r))")+"))"+
		") :pattern ((runestr r)))))\n"+
		"(assert (forall ((r "+I+") (j "+I+")) (! (=> (and (not (and "+m.ile(z(0), "r")+" "+m.ilt("r", z(128))+")) "+m.ile(z(0), "j")+" "+m.ilt("j", "(slen (runestr r))")+") "+m.ile(z(128), "(sat (runestr r) j)")+") :pattern ((sat (runestr r) j)))))\n"+
		"(assert (forall ((s Str) (i "+I+")) (! (=> (and "+m.ile(z(0), "i")+" "+m.ilt("i", "(slen s)")+") (and (= (utf8r (ssub s i (slen s)) "+z(0)+") (utf8r s i)) (= (utf8w (ssub s i (slen s)) "+z(0)+") (utf8w s i)) (= (utf8valid (ssub s i (slen s)) "+z(0)+") (utf8valid s i)))) :pattern ((utf8w (ssub s i (slen s)) "+z(0)+")) :pattern ((utf8r (ssub s i (slen s)) "+z(0)+")))))\n"+
		"(assert (and (= (slen (runestr "+z(65533)+")) "+z(3)+") (= (sat (runestr "+z(65533)+") "+z(0)+") "+z(239)+") (= (sat (runestr "+z(65533)+") "+z(1)+") "+z(191)+") (= (sat (runestr "+z(65533)+") "+z(2)+") "+z(189)+")))")
}

// needBytestr: the one-byte string.
func (e *Enc) needBytestr() {
	e.needStr()
	m := e.M
	I := m.smtSort(SI)
	e.prelude("bytestr", "(declare-fun bytestr ("+I+") Str)\n(assert (forall ((c "+I+")) (! (and (= (slen (bytestr c)) "+m.ilit(1)+") (=> (and "+m.ile(m.ilit(0), "c")+" "+m.ile("c", m.ilit(255))+") (= (sat (bytestr c) "+m.ilit(0)+") c))) :pattern ((bytestr c)))))")
}

// ---- memory ----

func (e *Enc) sel2(h, obj, off string) string {
	return "(select (select " + h + " " + obj + ") " + off + ")"
}

func (e *Enc) load(st *State, t types.Type, obj, off string) Val {
	ls, ok := e.M.leafSorts(t)
	if !ok {
		e.abstract("load of unrepresentable type " + t.String())
		return Val{T: t, Bad: true}
	}
	v := Val{T: t}
	for i, s := range ls {
		o := off
		if i > 0 {
			o = e.M.iadd(off, e.M.ilit(int64(i)))
		}
		v.L = append(v.L, e.sel2(e.heap(st, s), obj, o))
	}
	return v
}

func (e *Enc) store(st *State, t types.Type, obj, off string, v Val) {
	ls, ok := e.M.leafSorts(t)
	if !ok || v.Bad || len(v.L) != len(ls) {
		e.abstract("store of unrepresentable type " + t.String())
		sorts := map[Sort]bool{}
		e.allSorts(t, sorts)
		for s := range sorts {
			e.havocObj(st, s, obj)
		}
		return
	}
	// group by sort so each heap component gets one new version
	bySort := map[Sort][]int{}
	var order []Sort
	for i, s := range ls {
		if _, ok := bySort[s]; !ok {
			order = append(order, s)
		}
		bySort[s] = append(bySort[s], i)
	}
	for _, s := range order {
		h := e.heap(st, s)
		inner := "(select " + h + " " + obj + ")"
		for _, i := range bySort[s] {
			o := off
			if i > 0 {
				o = e.M.iadd(off, e.M.ilit(int64(i)))
			}
			inner = "(store " + inner + " " + o + " " + v.L[i] + ")"
		}
		nh := e.fresh("H_" + string(s))
		e.emitDecl(fmt.Sprintf("(define-fun %s () %s (store %s %s %s))", nh, e.heapSort(s), h, obj, inner))
		st.H[s] = nh
	}
}

// havocObj makes the contents of object obj in heap component s arbitrary.
func (e *Enc) havocObj(st *State, s Sort, obj string) {
	h := e.heap(st, s)
	arr := e.fresh("A_" + string(s))
	e.emitDecl(fmt.Sprintf("(declare-const %s (Array %s %s))", arr, e.M.smtSort(SI), e.M.smtSort(s)))
	nh := e.fresh("H_" + string(s))
	e.emitDecl(fmt.Sprintf("(define-fun %s () %s (store %s %s %s))", nh, e.heapSort(s), h, obj, arr))
	st.H[s] = nh
}

func (e *Enc) havocSort(st *State, s Sort) {
	e.heap(st, s)
	nh := e.fresh("H_" + string(s))
	e.emitDecl(fmt.Sprintf("(declare-const %s %s)", nh, e.heapSort(s)))
	st.H[s] = nh
}

// notLocal: a value obtained from a callee or loaded from memory cannot point at a local allocation of this
// activation whose address never escapes.
func (e *Enc) notLocal(v Val) string {
	if v.Bad || v.T == nil {
		return "true"
	}
	var objs []string
	var collect func(t types.Type, L []string) int
	collect = func(t types.Type, L []string) int {
		switch u := t.Underlying().(type) {
		case *types.Pointer:
			objs = append(objs, L[0])
			return 2
		case *types.Slice:
			objs = append(objs, L[0])
			return 4
		case *types.Interface:
			objs = append(objs, L[1])
			return 3
		case *types.Map, *types.Chan, *types.Signature:
			objs = append(objs, L[0])
			return 1
		case *types.Struct:
			k := 0
			for i := 0; i < u.NumFields(); i++ {
				k += collect(u.Field(i).Type(), L[k:])
			}
			return k
		case *types.Tuple:
			k := 0
			for i := 0; i < u.Len(); i++ {
				k += collect(u.At(i).Type(), L[k:])
			}
			return k
		case *types.Array:
			k := 0
			for i := int64(0); i < u.Len(); i++ {
				k += collect(u.Elem(), L[k:])
			}
			return k
		}
		ls, _ := e.M.leafSorts(t)
		return len(ls)
	}
	ls, ok := e.M.leafSorts(v.T)
	if !ok || len(ls) != len(v.L) {
		return "true"
	}
	collect(v.T, v.L)
	if len(objs) == 0 {
		return "true"
	}
	var fs []string
	for a := range e.nonEsc {
		x, ok := e.vals[a]
		if !ok || x.Bad || len(x.L) != 2 {
			continue
		}
		if _, isAlloc := a.(*ssa.Alloc); !isAlloc {
			continue
		}
		for _, o := range objs {
			fs = append(fs, not(eq(o, x.L[0])))
		}
	}
	sort.Strings(fs)
	return and(fs...)
}

// notGhost: program pointers never point at the reserved ids of ghost variables.
func (e *Enc) notGhost(obj string) string {
	if len(e.CS.GhostOrd) == 0 {
		return "true"
	}
	return or(e.M.ilt(obj, e.M.ilit(49000)), e.M.ilt(e.M.ilit(100000), obj))
}

// ghostObj is the reserved object id of a ghost variable (below the allocation watermark, above globals).
func (e *Enc) ghostObj(name string) string {
	for i, n := range e.CS.GhostOrd {
		if n == name {
			return e.M.ilit(int64(50000 + i))
		}
	}
	return e.M.ilit(49999)
}

// preserved objects: ghost variables (they change only through contracts that say so) and the package-level
// variables the contract declares stable (with the objects they point to).
func (e *Enc) preservedObjs(st *State) []string {
	var objs []string
	for _, n := range e.CS.GhostOrd {
		objs = append(objs, e.ghostObj(n))
	}
	if e.Ct != nil && e.Pkg != nil {
		for _, n := range e.Ct.Stable {
			if g, ok := e.Pkg.Members[n].(*ssa.Global); ok {
				p := e.val(g)
				objs = append(objs, p.L[0])
				if _, isPtr := derefType(g.Type()).Underlying().(*types.Pointer); isPtr {
					objs = append(objs, e.sel2(e.heap(st, SI), p.L[0], p.L[1]))
				}
			} else if c, err := parseClause(strings.ReplaceAll(n, "[*]", "[0]"), "stable"); err == nil {
				// an expression over the parameters, e.g. l.pairs[*]: the object it designates at entry
				save := len(e.errs)
				if obj, _ := e.evalModTarget(c, e.fnEnv(e.entry, nil)); obj != "" {
					objs = append(objs, obj)
				}
				e.errs = e.errs[:save]
			}
		}
	}
	return objs
}

// nonEscaping: local allocations (and captured-variable cells) whose address is only used for loads, stores and
// field/element addressing inside this function: no callee can reach them, so unknown calls leave them unchanged.
func (e *Enc) computeNonEscaping() {
	e.nonEsc = map[ssa.Value]bool{}
	var okUse func(v ssa.Value, depth int) bool
	okUse = func(v ssa.Value, depth int) bool {
		if depth > 6 {
			return false
		}
		refs := v.Referrers()
		if refs == nil {
			return true
		}
		for _, r := range *refs {
			switch x := r.(type) {
			case *ssa.Store:
				if x.Val == v {
					return false // the address itself is stored somewhere
				}
			case *ssa.UnOp:
				if x.Op != token.MUL {
					return false
				}
			case *ssa.FieldAddr:
				if !okUse(x, depth+1) {
					return false
				}
			case *ssa.IndexAddr:
				if !okUse(x, depth+1) {
					return false
				}
			case *ssa.DebugRef:
			case *ssa.MakeClosure:
				// captured by a closure that is only ever called from this function, has a contract (so that its
				// frame is what the contract says), and itself only loads from / stores to the variable
				fn, _ := x.Fn.(*ssa.Function)
				if fn == nil || depth > 0 {
					return false
				}
				if ct := e.contractFor(funcKey(fn)); ct == nil || noFrameClaimed(ct) || ct.ModHeap {
					return false
				}
				if crefs := x.Referrers(); crefs != nil {
					for _, cr := range *crefs {
						switch c := cr.(type) {
						case *ssa.Call:
							if c.Call.Value != x {
								return false
							}
							for _, a := range c.Call.Args {
								if a == x {
									return false
								}
							}
						case *ssa.DebugRef:
						default:
							return false
						}
					}
				}
				for i, bnd := range x.Bindings {
					if bnd == v && i < len(fn.FreeVars) && !okUse(fn.FreeVars[i], depth+1) {
						return false
					}
				}
			default:
				return false
			}
		}
		return true
	}
	for _, b := range e.Fn.Blocks {
		for _, ins := range b.Instrs {
			if a, ok := ins.(*ssa.Alloc); ok && okUse(a, 0) {
				e.nonEsc[a] = true
			}
		}
	}
	for _, fv := range e.Fn.FreeVars {
		if _, isPtr := fv.Type().Underlying().(*types.Pointer); isPtr && okUse(fv, 0) {
			e.nonEsc[fv] = true
		}
	}
}

// computeFreshEscapes: for every value that denotes memory allocated in this activation (make, new, composite
// literals, results of callees whose contract says the result is fresh), the instructions at which the value or an
// alias of it becomes reachable from elsewhere: stored anywhere, passed to a callee without contract, captured,
// converted to an interface, returned. Until such an instruction has executed, no callee can reach the object, so
// calls without contract leave it unchanged.
func (e *Enc) computeFreshEscapes() {
	e.freshEsc = map[ssa.Value][]ssa.Instruction{}
	e.freshDerived = map[ssa.Value][]ssa.Value{}
	fn := e.Fn
	// block reachability
	e.blockReachT = map[int]map[int]bool{}
	for _, b := range fn.Blocks {
		seen := map[int]bool{}
		var stack []*ssa.BasicBlock
		stack = append(stack, b.Succs...)
		for len(stack) > 0 {
			x := stack[len(stack)-1]
			stack = stack[:len(stack)-1]
			if seen[x.Index] {
				continue
			}
			seen[x.Index] = true
			stack = append(stack, x.Succs...)
		}
		e.blockReachT[b.Index] = seen
	}
	isFreshCall := func(c *ssa.Call) bool {
		_, key := e.calleeOf(c)
		switch key {
		case "slices.Clone", "maps.Clone", "slices.Concat", "strings.Fields", "strings.Split":
			return true
		}
		return false
	}
	for _, b := range fn.Blocks {
		for _, ins := range b.Instrs {
			var src ssa.Value
			switch x := ins.(type) {
			case *ssa.MakeSlice:
				src = x
			case *ssa.Alloc:
				if x.Heap {
					src = x
				}
			case *ssa.Call:
				if isFreshCall(x) {
					src = x
				}
			}
			if src == nil {
				continue
			}
			var esc []ssa.Instruction
			seen := map[ssa.Value]bool{}
			var walk func(v ssa.Value, depth int)
			walk = func(v ssa.Value, depth int) {
				if seen[v] || depth > 8 {
					return
				}
				seen[v] = true
				refs := v.Referrers()
				if refs == nil {
					return
				}
				for _, r := range *refs {
					switch y := r.(type) {
					case *ssa.Store:
						if y.Val == v {
							esc = append(esc, y)
						}
					case *ssa.Slice:
						walk(y, depth+1)
					case *ssa.Phi:
						if e.freshish(y, map[ssa.Value]bool{}, 0, isFreshCall) {
							walk(y, depth+1)
						}
					case *ssa.ChangeType:
						walk(y, depth+1)
					case *ssa.Extract:
						walk(y, depth+1)
					case *ssa.IndexAddr, *ssa.FieldAddr:
						// address computations: stores through them write the object itself, which is fine
						walk(y.(ssa.Value), depth+1)
					case *ssa.UnOp, *ssa.DebugRef, *ssa.BinOp, *ssa.If, *ssa.Index, *ssa.Lookup:
					case *ssa.Return, *ssa.MakeInterface, *ssa.MakeClosure, *ssa.MapUpdate, *ssa.Send, *ssa.Go, *ssa.Defer:
						esc = append(esc, y)
					case *ssa.Call:
						if bi, ok := y.Call.Value.(*ssa.Builtin); ok {
							switch bi.Name() {
							case "append", "copy":
								walk(y, depth+1)
							}
							continue
						}
						_, key := e.calleeOf(y)
						if ct := e.contractFor(key); ct != nil || isKnownPure(key) {
							// a callee under contract does not retain its arguments; its results may alias them
							if isContainer(y.Type()) {
								walk(y, depth+1)
							}
							continue
						}
						esc = append(esc, y)
					default:
						esc = append(esc, r)
					}
				}
			}
			walk(src, 0)
			e.freshEsc[src] = esc
			for v := range seen {
				e.freshDerived[src] = append(e.freshDerived[src], v)
			}
		}
	}
}

// freshish: every object v can denote was allocated in this activation (or v is nil).
func (e *Enc) freshish(v ssa.Value, seen map[ssa.Value]bool, depth int, isFreshCall func(*ssa.Call) bool) bool {
	if depth > 10 {
		return false
	}
	if seen[v] {
		return true
	}
	seen[v] = true
	switch x := v.(type) {
	case *ssa.Const:
		return x.Value == nil
	case *ssa.MakeSlice:
		return true
	case *ssa.Alloc:
		return true
	case *ssa.Slice:
		return e.freshish(x.X, seen, depth+1, isFreshCall)
	case *ssa.ChangeType:
		return e.freshish(x.X, seen, depth+1, isFreshCall)
	case *ssa.Phi:
		for _, ed := range x.Edges {
			if !e.freshish(ed, seen, depth+1, isFreshCall) {
				return false
			}
		}
		return true
	case *ssa.Extract:
		return e.freshish(x.Tuple, seen, depth+1, isFreshCall)
	case *ssa.Call:
		if isFreshCall(x) {
			return true
		}
		if bi, ok := x.Call.Value.(*ssa.Builtin); ok && bi.Name() == "append" {
			return e.freshish(x.Call.Args[0], seen, depth+1, isFreshCall)
		}
		_, key := e.calleeOf(x)
		if ct := e.contractFor(key); ct != nil && (len(ct.Modifies) > 0) {
			// results of a contracted callee that updates its arguments in place alias those arguments or are new
			for _, a := range x.Call.Args {
				if isContainer(a.Type()) && !e.freshish(a, seen, depth+1, isFreshCall) {
					return false
				}
			}
			return true
		}
		return false
	}
	return false
}

// instrCanPrecede: instruction a may execute before (or is) instruction b on some path.
func (e *Enc) instrCanPrecede(a, b ssa.Instruction) bool {
	if a == b {
		return true
	}
	ba, bb := a.Block(), b.Block()
	if ba == nil || bb == nil {
		return true
	}
	if ba == bb {
		ia, ib := -1, -1
		for i, x := range ba.Instrs {
			if x == a {
				ia = i
			}
			if x == b {
				ib = i
			}
		}
		if ia <= ib {
			return true
		}
		return e.blockReachT[ba.Index][bb.Index] // around a loop
	}
	return e.blockReachT[ba.Index][bb.Index]
}

// variableContainers: object ids of the List and Indexes backing arrays of every expand.Variable value seen so far.
// Containers stored in shell variables are never written in place (that discipline is what the C27 obligations
// prove for interp, expand and internal), so calls without contract leave them unchanged.
func (e *Enc) variableContainers() []string {
	var objs []string
	for v, x := range e.vals {
		if x.Bad || x.T == nil || !isVariableType(x.T) {
			continue
		}
		st, ok := x.T.Underlying().(*types.Struct)
		if !ok {
			continue
		}
		for i := 0; i < st.NumFields(); i++ {
			switch st.Field(i).Name() {
			case "List", "Indexes":
				if lo, hi, ok := e.M.fieldLeafRange(st, i); ok && hi <= len(x.L) && hi-lo == 4 {
					objs = append(objs, x.L[lo])
				}
			}
		}
		_ = v
	}
	sort.Strings(objs)
	return objs
}

func (e *Enc) havocAll(st *State) {
	keep := e.preservedObjs(st)
	// syntax tree nodes passed as parameters: the interpreter and expander never write the tree (C29 obligations)
	astKept := false
	for _, p := range e.Fn.Params {
		if pt, ok := p.Type().Underlying().(*types.Pointer); ok && isASTType(p.Type()) {
			if _, isStruct := pt.Elem().Underlying().(*types.Struct); isStruct {
				if x, ok := e.vals[p]; ok && !x.Bad && len(x.L) == 2 {
					keep = append(keep, x.L[0])
					astKept = true
				}
			}
		}
	}
	if astKept {
		e.assumptions["syntax tree nodes passed as parameters are not written by callees (the frame proved by the C29 obligations)"] = true
	}
	if vc := e.variableContainers(); len(vc) > 0 {
		keep = append(keep, vc...)
		e.assumptions["containers held by expand.Variable values are not written in place by callees (the discipline proved by the C27 obligations)"] = true
	}
	if e.curInstr != nil && e.freshEsc != nil {
		for src, escs := range e.freshEsc {
			x, ok := e.vals[src]
			if !ok || x.Bad || len(x.L) < 1 {
				continue
			}
			if si, isIns := src.(ssa.Instruction); isIns && !e.instrCanPrecede(si, e.curInstr) {
				continue
			}
			escaped := false
			for _, ei := range escs {
				if e.instrCanPrecede(ei, e.curInstr) {
					escaped = true
					break
				}
			}
			if !escaped {
				keep = append(keep, x.L[0])
				for _, d := range e.freshDerived[src] {
					dv, ok := e.vals[d]
					if !ok || dv.Bad {
						continue
					}
					switch d.Type().Underlying().(type) {
					case *types.Slice, *types.Pointer:
						if di, isIns := d.(ssa.Instruction); isIns && !e.instrCanPrecede(di, e.curInstr) {
							continue
						}
						keep = append(keep, dv.L[0])
					case *types.Tuple:
						// results of contracted calls: slice components
						tup := d.Type().(*types.Tuple)
						off := 0
						for i := 0; i < tup.Len(); i++ {
							ls, _ := e.M.leafSorts(tup.At(i).Type())
							if _, isSl := tup.At(i).Type().Underlying().(*types.Slice); isSl && off < len(dv.L) {
								keep = append(keep, dv.L[off])
							}
							off += len(ls)
						}
					}
				}
			}
		}
	}
	for v := range e.nonEsc {
		if x, ok := e.vals[v]; ok && !x.Bad && len(x.L) == 2 {
			keep = append(keep, x.L[0])
		}
	}
	sort.Strings(keep)
	old := st.clone()
	defer func() {
		for _, o := range keep {
			for s, h := range st.H {
				if oh, ok := old.H[s]; ok && oh != h {
					e.emitAssert(-1, eq("(select "+h+" "+o+")", "(select "+oh+" "+o+")"))
				}
			}
		}
	}()
	var ss []string
	for s := range e.knownSorts {
		ss = append(ss, string(s))
	}
	for s := range st.H {
		if !e.knownSorts[s] {
			ss = append(ss, string(s))
		}
	}
	sort.Strings(ss)
	for _, s := range ss {
		e.havocSort(st, Sort(s))
	}
	e.bumpAlloc(st)
}

func (e *Enc) bumpAlloc(st *State) {
	na := e.decl(e.fresh("alloc"), SI)
	e.emitAssert(-1, e.M.ile(st.Alloc, na))
	st.Alloc = na
}

// newObj allocates a fresh object id.
func (e *Enc) newObj(st *State, prefix string) string {
	obj := e.def(e.fresh(prefix+"_obj"), SI, st.Alloc)
	st.Alloc = e.def(e.fresh("alloc"), SI, e.M.iadd(st.Alloc, e.M.ilit(1)))
	return obj
}

// standaloneTypeID: non-zero for a package-level named struct type that no loaded package stores by value inside
// another value (as a struct field, an array element or a slice element, also of locally declared types and of
// variables and signatures). Memory of such a type only ever exists as a whole allocation of its own.
func (e *Enc) standaloneTypeID(t types.Type) int {
	n, ok := types.Unalias(t).(*types.Named)
	if !ok || n.Obj().Pkg() == nil || n.Obj().Parent() != n.Obj().Pkg().Scope() || n.TypeArgs() != nil || n.TypeParams() != nil {
		return 0
	}
	if _, isStruct := n.Underlying().(*types.Struct); !isStruct {
		return 0
	}
	emb := e.P.embeddedTypes()
	key := n.Obj().Pkg().Path() + "." + n.Obj().Name()
	if emb[key] {
		return 0
	}
	if e.P.layoutInfo(); e.P.noLayout[key] {
		return 0
	}
	return e.typeID(t) + 1000
}

// layoutTypeIDs: for a named struct type that is held by value inside other named structs, the allocation type ids
// (same numbering as standaloneTypeID) of every type an allocation containing it can have; nil when unknown.
func (e *Enc) layoutTypeIDs(t types.Type) []int {
	n, ok := types.Unalias(t).(*types.Named)
	if !ok || n.Obj().Pkg() == nil || n.Obj().Parent() != n.Obj().Pkg().Scope() || n.TypeArgs() != nil || n.TypeParams() != nil {
		return nil
	}
	if _, isStruct := n.Underlying().(*types.Struct); !isStruct {
		return nil
	}
	tops, ok := e.P.layoutTops(n.Obj().Pkg().Path() + "." + n.Obj().Name())
	if os.Getenv("GOVC_DEBUG_LAYOUT") != "" {
		fmt.Fprintf(os.Stderr, "layout %s: %v %v anon=%v\n", n.Obj().Name(), tops, ok, e.P.anonTop[n.Obj().Pkg().Path()+"."+n.Obj().Name()])
	}
	if !ok || len(tops) > 6 {
		return nil
	}
	var ids []int
	for _, k := range tops {
		ids = append(ids, e.typeIDKey(k)+1000)
	}
	return ids
}

// sliceLayoutTypeIDs: the allocation type ids possible for the backing array of a slice with this element type.
func (e *Enc) sliceLayoutTypeIDs(elem types.Type) []int {
	for {
		a, ok := types.Unalias(elem).Underlying().(*types.Array)
		if !ok {
			break
		}
		elem = a.Elem()
	}
	if _, isStruct := elem.Underlying().(*types.Struct); isStruct {
		return e.layoutTypeIDs(elem)
	}
	if _, isTP := types.Unalias(elem).(*types.TypeParam); isTP {
		return nil
	}
	k := arrayKey(elem)
	if k == "" {
		return nil
	}
	tops, ok := e.P.layoutTops(k)
	if !ok || len(tops) > 6 {
		return nil
	}
	var ids []int
	for _, t := range tops {
		ids = append(ids, e.typeIDKey(t)+1000)
	}
	return ids
}

// zeroArr is an array whose elements are all the zero value of sort s.
func (e *Enc) zeroArr(s Sort) string {
	I := e.M.smtSort(SI)
	if s != SStr {
		return fmt.Sprintf("((as const (Array %s %s)) %s)", I, e.M.smtSort(s), e.zero(s))
	}
	// cvc5 only accepts values in constant arrays; str_empty is an uninterpreted constant
	e.needStr()
	e.prelude("zeroarr_S", fmt.Sprintf("(declare-const zeroarr_S (Array %s Str))\n(assert (forall ((i %s)) (! (= (select zeroarr_S i) str_empty) :pattern ((select zeroarr_S i)))))", I, I))
	return "zeroarr_S"
}

func (e *Enc) zeroInit(st *State, t types.Type, obj string) {
	sorts := map[Sort]bool{}
	e.allSorts(t, sorts)
	var ss []string
	for s := range sorts {
		ss = append(ss, string(s))
	}
	sort.Strings(ss)
	for _, s0 := range ss {
		s := Sort(s0)
		h := e.heap(st, s)
		nh := e.fresh("H_" + s0)
		e.emitDecl(fmt.Sprintf("(define-fun %s () %s (store %s %s %s))", nh, e.heapSort(s), h, obj, e.zeroArr(s)))
		st.H[s] = nh
	}
}

// ---- obligations ----

func (e *Enc) srcText(pos token.Pos) string {
	if !pos.IsValid() {
		return ""
	}
	fset := e.P.Prog.Fset
	pp := e.P.PPkgs[e.Pkg.Pkg.Path()]
	if pp == nil {
		return ""
	}
	for _, f := range pp.Syntax {
		if f.FileStart <= pos && pos < f.FileEnd {
			path, _ := astutil.PathEnclosingInterval(f, pos, pos+1)
			for _, n := range path {
				switch n.(type) {
				case *ast.IndexExpr, *ast.SliceExpr, *ast.BinaryExpr, *ast.CallExpr, *ast.TypeAssertExpr, *ast.AssignStmt, *ast.IncDecStmt, *ast.UnaryExpr, *ast.ReturnStmt:
					p1, p2 := fset.Position(n.Pos()), fset.Position(n.End())
					if p1.Line != p2.Line || p2.Offset-p1.Offset > 60 {
						continue
					}
					data := pp.CompiledGoFiles
					_ = data
					src := e.fileSrc(p1.Filename)
					if src != nil && p2.Offset <= len(src) {
						return strings.Join(strings.Fields(string(src[p1.Offset:p2.Offset])), "")
					}
				}
			}
		}
	}
	return ""
}

var fileCache = map[string][]byte{}

func (e *Enc) fileSrc(name string) []byte {
	if b, ok := fileCache[name]; ok {
		return b
	}
	b, _ := readFile(name)
	fileCache[name] = b
	return b
}

// oblige records an obligation: under the current context and reach, cond must hold.
func (e *Enc) oblige(kind, anchor string, pos token.Pos, reach, cond, descr string) {
	if e.pass != 2 {
		return
	}
	if cond == "true" {
		// trivially true obligations are still counted (discharged syntactically)
	}
	base := fmt.Sprintf("%s#%s@%s", e.fnName, kind, anchor)
	e.occ[base]++
	name := base
	if e.occ[base] > 1 {
		name = fmt.Sprintf("%s~%d", base, e.occ[base])
	}
	o := &Obligation{Name: name, Func: e.fnName, Kind: kind, Descr: descr, Backend: "smt", Bounded: e.bounded}
	if pos.IsValid() {
		p := e.P.Prog.Fset.Position(pos)
		o.Pos = fmt.Sprintf("%s:%d", relPath(p.Filename, e.P.Dir), p.Line)
	}
	o.SMT = e.query(e.curBlock, and(reach, not(cond)))
	if sk, ok := e.skolemOf[cond]; ok {
		o.SMTAlt = e.query(e.curBlock, and(reach, e.instancesFor(sk), not(sk)))
	}
	o.RC = e.replayCtx()
	e.obls = append(e.obls, o)
}

// instantiator re-evaluates one assumed clause with its outermost universals instantiated at an index term.
type instantiator struct {
	block int
	f     func(t string) string
}

var skolemRe = regexp.MustCompile(`sk![0-9]+`)

// assume asserts a contract clause as a hypothesis at the given block and, when the clause contains an outermost
// universal quantifier, registers it for explicit instantiation.
func (e *Enc) assume(block int, guard string, x ast.Expr, mkEnv func() *Env) string {
	e.sawHypAll = false
	t := e.evalHyp(x, mkEnv())
	e.emitAssert(block, implies(guard, t))
	if e.sawHypAll && e.pass == 2 {
		e.insts = append(e.insts, instantiator{block: block, f: func(at string) string {
			env := mkEnv()
			n := *env
			n.pol = -1
			n.instAt = at
			v := e.evalExpr(x, &n)
			if v.Bad || len(v.L) != 1 {
				return "true"
			}
			return implies(guard, v.L[0])
		}})
	}
	return t
}

// instancesFor returns ground instances of the assumed universally quantified clauses that are in scope of the current
// block, at the skolem constants of the goal and at the bounds of its quantifiers. They are consequences of assertions
// that the query contains anyway, so adding them is sound; they spare the solver the arithmetic-heavy triggers.
func (e *Enc) instancesFor(goal string) string {
	if len(e.insts) == 0 {
		return "true"
	}
	sks := map[string]bool{}
	for _, s := range skolemRe.FindAllString(goal, -1) {
		sks[s] = true
	}
	if len(sks) == 0 {
		return "true"
	}
	var terms []string
	seen := map[string]bool{}
	add := func(t string) {
		if !seen[t] {
			seen[t] = true
			terms = append(terms, t)
		}
	}
	var names []string
	for s := range sks {
		names = append(names, s)
	}
	sort.Strings(names)
	m := e.M
	for _, s := range names {
		add(s)
		add(m.isub(s, m.ilit(1)))
		add(m.iadd(s, m.ilit(1)))
		if b, ok := e.skolemBounds[s]; ok {
			add(b[0])
			add(m.isub(b[1], m.ilit(1)))
		}
	}
	add("@first")
	add("@last")
	anc := e.ancestors(e.curBlock)
	saveSub, saveHead, saveSt := e.inlineSubst, e.inlineHead, e.inlineState
	saveNo := e.noSkolem
	e.noSkolem = true
	var out []string
	for _, in := range e.insts {
		if in.block >= 0 && !anc[in.block] {
			continue
		}
		for _, t := range terms {
			if len(out) >= 400 {
				break
			}
			if r := in.f(t); r != "true" {
				out = append(out, r)
			}
		}
	}
	e.noSkolem = saveNo
	e.inlineSubst, e.inlineHead, e.inlineState = saveSub, saveHead, saveSt
	return and(out...)
}

// cover records a reachability goal: the context ∧ reach must be satisfiable.
func (e *Enc) cover(kind, anchor string, reach string) {
	if e.pass != 2 {
		return
	}
	name := fmt.Sprintf("%s#%s@%s", e.fnName, kind, anchor)
	if kind == "cover" && e.Ct != nil && e.Ct.Dead[anchor] {
		// the contract claims this return is dead code: prove it
		o := &Obligation{Name: fmt.Sprintf("%s#dead@%s", e.fnName, anchor), Func: e.fnName, Kind: "dead", Backend: "smt", Descr: "this return is unreachable"}
		o.SMT = e.query(e.curBlock, reach)
		e.obls = append(e.obls, o)
		return
	}
	o := &Obligation{Name: name, Func: e.fnName, Kind: kind, Backend: "smt", Expect: "sat"}
	o.SMT = e.query(e.curBlock, reach)
	e.obls = append(e.obls, o)
}

func relPath(f, dir string) string {
	if strings.HasPrefix(f, dir+"/") {
		return f[len(dir)+1:]
	}
	return f
}

// ancestors of block b in the acyclic (back-edge-free) graph, including b.
func (e *Enc) ancestors(b int) map[int]bool {
	anc := map[int]bool{b: true}
	if b < 0 {
		return anc
	}
	var walk func(bb *ssa.BasicBlock)
	walk = func(bb *ssa.BasicBlock) {
		for _, p := range bb.Preds {
			if e.isBackEdge(p, bb) || anc[p.Index] {
				continue
			}
			anc[p.Index] = true
			walk(p)
		}
	}
	walk(e.Fn.Blocks[b])
	return anc
}

func (e *Enc) query(block int, goal string) string {
	var b strings.Builder
	b.WriteString("(set-option :produce-models true)\n")
	if e.M == ModeBV {
		b.WriteString("(set-logic ALL)\n")
	} else {
		b.WriteString("(set-logic ALL)\n")
	}
	for _, p := range e.pre {
		b.WriteString(p)
		b.WriteString("\n")
	}
	anc := e.ancestors(block)
	for _, it := range e.items {
		if it.isDef || it.block < 0 || anc[it.block] {
			b.WriteString(it.text)
			b.WriteString("\n")
		}
	}
	b.WriteString("(assert " + goal + ")\n(check-sat)\n(get-model)\n")
	return b.String()
}

func (e *Enc) isBackEdge(from, to *ssa.BasicBlock) bool {
	return to.Dominates(from)
}

// ---- constants ----

func (e *Enc) constVal(c *ssa.Const) Val {
	t := c.Type()
	if c.Value == nil {
		return e.zeroVal(t)
	}
	switch u := t.Underlying().(type) {
	case *types.Basic:
		switch {
		case u.Info()&types.IsInteger != 0:
			n, _ := new(big.Int).SetString(constant.ToInt(c.Value).ExactString(), 10)
			if n == nil {
				n = big.NewInt(0)
			}
			return Val{T: t, L: []string{e.M.lit(e.M.intSort(t), n)}}
		case u.Info()&types.IsBoolean != 0:
			if constant.BoolVal(c.Value) {
				return Val{T: t, L: []string{"true"}}
			}
			return Val{T: t, L: []string{"false"}}
		case u.Info()&types.IsString != 0:
			return Val{T: t, L: []string{e.strLit(constant.StringVal(c.Value))}}
		case u.Info()&types.IsFloat != 0:
			f, _ := constant.Float64Val(c.Value)
			s := fmt.Sprintf("%f", f)
			if f < 0 {
				s = fmt.Sprintf("(- %f)", -f)
			}
			return Val{T: t, L: []string{s}}
		}
	}
	return e.havocVal(t, "const")
}

func (e *Enc) globalID(name string) int {
	if id, ok := e.globalIDs[name]; ok {
		return id
	}
	id := len(e.globalIDs) + 1
	e.globalIDs[name] = id
	return id
}

// val returns the symbolic value of an SSA value.
func (e *Enc) val(v ssa.Value) Val {
	if e.inlineSubst != nil {
		if x, ok := e.inlineSubst[v]; ok {
			return x
		}
		if ins, ok := v.(ssa.Instruction); ok && ins.Block() == e.inlineHead {
			if x, ok := e.inlineEval(ins); ok {
				return x
			}
		}
	}
	if x, ok := e.vals[v]; ok {
		return x
	}
	switch c := v.(type) {
	case *ssa.Const:
		return e.constVal(c)
	case *ssa.Global:
		x := Val{T: c.Type(), L: []string{e.M.ilit(int64(e.globalID(c.RelString(nil)))), e.M.ilit(0)}}
		return x
	case *ssa.Function:
		return Val{T: c.Type(), L: []string{e.M.ilit(int64(1000 + e.globalID("func:"+c.RelString(nil))))}}
	case *ssa.Builtin:
		return Val{T: c.Type(), L: []string{e.M.ilit(0)}}
	case *ssa.FreeVar, *ssa.Parameter:
		x := e.havocVal(v.Type(), "p_"+sanitize(v.Name()))
		e.vals[v] = x
		e.emitAssert(-1, e.typeFacts(x, e.entry))
		return x
	}
	// value not yet defined (e.g. defined in a block not yet processed: only via back edges) -> havoc
	x := e.havocVal(v.Type(), "undef_"+sanitize(v.Name()))
	e.vals[v] = x
	return x
}

func readFile(name string) ([]byte, error) { return osReadFile(name) }
