package main

import (
	"fmt"
	"go/types"
	"sort"
	"strings"

	"golang.org/x/tools/go/ssa"
)

func (e *Enc) exec(ins ssa.Instruction, st *State) {
	m := e.M
	e.curState = st
	e.curInstr = ins
	switch x := ins.(type) {
	case *ssa.DebugRef:
		return
	case *ssa.If, *ssa.Jump:
		return
	case *ssa.Alloc:
		obj := e.newObj(st, "al_"+sanitize(x.Name()))
		e.zeroInit(st, derefType(x.Type()), obj)
		e.vals[x] = Val{T: x.Type(), L: []string{obj, m.ilit(0)}}
		return
	case *ssa.Store:
		a := e.val(x.Addr)
		v := e.val(x.Val)
		if a.Bad {
			e.abstract("store through unmodelled pointer")
			e.havocAll(st)
			return
		}
		e.frameCheck(x, a, st)
		e.onStore(x, v, st)
		e.store(st, derefType(x.Addr.Type()), a.L[0], a.L[1], v)
		return
	case *ssa.MakeSlice:
		sl := x.Type().Underlying().(*types.Slice)
		ln := e.toIndex(e.val(x.Len), x.Len.Type())
		cp := e.toIndex(e.val(x.Cap), x.Cap.Type())
		if ln == "" || cp == "" {
			e.vals[x] = e.havocVal(x.Type(), "mk")
			return
		}
		_, lenConst := x.Len.(*ssa.Const)
		_, capConst := x.Cap.(*ssa.Const)
		if !(lenConst && capConst) {
			e.safety(true, "makeslice", x.Pos(), and(m.ile(m.ilit(0), ln), m.ile(ln, cp)), "make: len and cap in range")
		}
		obj := e.newObj(st, "mk_"+sanitize(x.Name()))
		e.zeroInit(st, sl.Elem(), obj)
		e.bind(x, Val{T: x.Type(), L: []string{obj, m.ilit(0), ln, cp}})
		return
	case *ssa.MakeMap, *ssa.MakeChan:
		obj := e.newObj(st, "mk_"+sanitize(x.(ssa.Value).Name()))
		e.vals[x.(ssa.Value)] = Val{T: x.(ssa.Value).Type(), L: []string{obj}}
		return
	case *ssa.MakeClosure:
		obj := e.newObj(st, "clo_"+sanitize(x.Name()))
		e.vals[x] = Val{T: x.Type(), L: []string{obj}}
		return
	case *ssa.MakeInterface:
		e.makeInterface(x, st)
		return
	case *ssa.TypeAssert:
		e.typeAssert(x, st)
		return
	case *ssa.Call:
		e.call(x, st)
		return
	case *ssa.Return:
		e.ret(x, st)
		return
	case *ssa.Panic:
		e.retOrd++
		if strings.HasPrefix(x.Block().Comment, "rangefunc.") {
			// run-time check of the range-over-func protocol (the iterator called yield after it was told to stop)
			e.assumptions["iterators used in range-over-func loops respect the yield protocol"] = true
			return
		}
		anchor := e.srcText(x.Pos())
		if anchor == "" {
			anchor = "panic"
		}
		if !e.noSafety {
			e.oblige("panic", anchor, x.Pos(), e.reachHere(), "false", "explicit panic is unreachable")
		}
		return
	case *ssa.Defer:
		e.abstract("defer")
		return
	case *ssa.RunDefers:
		if e.hasDefer {
			e.havocAll(st)
		}
		return
	case *ssa.Go:
		e.abstract("go statement")
		e.havocAll(st)
		return
	case *ssa.Send:
		e.abstract("channel send")
		return
	case *ssa.Select:
		e.abstract("select")
		e.havocAll(st)
		e.vals[x] = e.havocVal(x.Type(), "sel")
		return
	case *ssa.MapUpdate:
		// maps are not modelled: lookups return arbitrary values
		return
	case *ssa.Lookup:
		v := e.havocVal(x.Type(), "lk")
		e.vals[x] = v
		e.emitAssert(-1, e.typeFacts(v, st))
		if _, isStr := x.X.Type().Underlying().(*types.Basic); isStr {
			a := e.val(x.X)
			i := e.toIndex(e.val(x.Index), x.Index.Type())
			if !a.Bad && i != "" {
				e.safety(true, "index", x.Pos(), and(m.ile(m.ilit(0), i), m.ilt(i, "(slen "+a.L[0]+")")), "index in range of string")
			}
		}
		return
	case *ssa.Range:
		if bt, ok := x.X.Type().Underlying().(*types.Basic); ok && bt.Info()&types.IsString != 0 && m == ModeInt {
			// range over a string: the iterator is an object holding the byte position of the next rune
			obj := e.newObj(st, "iter")
			e.vals[x] = Val{T: x.Type(), L: []string{obj}}
			e.storeIter(st, obj, m.ilit(0))
			return
		}
		e.vals[x] = Val{T: x.Type(), L: nil, Bad: true}
		return
	case *ssa.Next:
		v := e.havocVal(x.Type(), "nx")
		e.vals[x] = v
		e.emitAssert(-1, e.typeFacts(v, st))
		if x.IsString && !v.Bad && len(v.L) == 3 {
			// (ok, index, rune): decoding at the iterator's position, which then advances by the rune's width
			if rng, ok := x.Iter.(*ssa.Range); ok {
				s := e.val(rng.X)
				it := e.vals[rng]
				if !s.Bad && !it.Bad && len(it.L) == 1 {
					e.needUTF8()
					pos := e.def(e.fresh("itpos"), SI, e.sel2(e.heap(st, SIter), it.L[0], m.ilit(0)))
					inRange := and(m.ile(m.ilit(0), pos), m.ilt(pos, "(slen "+s.L[0]+")"))
					e.emitAssert(e.curBlock, implies(e.reachHere(), and(eq(v.L[0], inRange),
						implies(v.L[0], and(eq(v.L[1], pos), eq(v.L[2], "(utf8r "+s.L[0]+" "+pos+")"))))))
					np := ite(v.L[0], m.iadd(pos, "(utf8w "+s.L[0]+" "+pos+")"), pos)
					e.storeIter(st, it.L[0], np)
				} else if !s.Bad {
					e.needStr()
					e.emitAssert(-1, implies(v.L[0], and(m.ile(m.ilit(0), v.L[1]), m.ilt(v.L[1], "(slen "+s.L[0]+")"))))
				}
			}
		}
		return
	case *ssa.Phi:
		return
	}
	if vi, ok := ins.(ssa.Value); ok {
		v, ok2 := e.evalInstr(ins, st, true)
		if ok2 {
			if v.Bad {
				v = e.havocVal(vi.Type(), "hv")
			}
			b := e.bind(vi, v)
			// loads and havocs yield well-typed values
			switch ins.(type) {
			case *ssa.UnOp:
				if u := ins.(*ssa.UnOp); u.Op.String() == "*" && e.pass == 2 {
					e.emitAssert(e.curBlock, e.typeFacts(b, st))
					if root, ok := u.X.(*ssa.Alloc); !ok || !e.nonEsc[root] {
						e.emitAssert(e.curBlock, e.notLocal(b))
					}
				}
			}
			return
		}
		e.abstract(fmt.Sprintf("%T", ins))
		e.vals[vi] = e.havocVal(vi.Type(), "hv")
		return
	}
	e.abstract(fmt.Sprintf("%T", ins))
}

// onStore emits the obligations of the contract's onstore clauses that match this store.
func (e *Enc) onStore(x *ssa.Store, v Val, st *State) {
	if e.Ct == nil || len(e.Ct.OnStore) == 0 || e.pass != 2 {
		return
	}
	target := ""
	switch a := x.Addr.(type) {
	case *ssa.FieldAddr:
		if stt, ok := derefType(a.X.Type()).Underlying().(*types.Struct); ok {
			if n, ok := types.Unalias(derefType(a.X.Type())).(*types.Named); ok {
				target = n.Obj().Name() + "." + stt.Field(a.Field).Name()
			}
		}
	case *ssa.IndexAddr:
		if p, ok := a.X.(*ssa.Parameter); ok {
			target = p.Name() + "[*]"
		}
	}
	if target == "" {
		return
	}
	for i, oc := range e.Ct.OnStore {
		if oc.Target != target {
			continue
		}
		vars := map[string]Val{}
		for k, pv := range e.params {
			vars[k] = pv
		}
		vars["value"] = v
		env := &Env{e: e, vars: vars, st: st, old: e.entry, pkg: e.Pkg, allocPre: e.entry.Alloc, atBlock: x.Block()}
		t := e.evalGoal(oc.Clause.Expr, env)
		e.oblige("onstore", target+"."+clauseLabel(oc.Clause, i), x.Pos(), e.reachHere(), t, "at every store to "+target+": "+oc.Clause.Text)
	}
}

// storeIter writes the position of a range-over-string iterator (its own heap component).
func (e *Enc) storeIter(st *State, obj, pos string) {
	h := e.heap(st, SIter)
	nh := e.fresh("H_T")
	e.emitDecl(fmt.Sprintf("(define-fun %s () %s (store %s %s (store (select %s %s) %s %s)))", nh, e.heapSort(SIter), h, obj, h, obj, e.M.ilit(0), pos))
	st.H[SIter] = nh
}

func (e *Enc) boxName(t types.Type) string {
	return "box_" + sanitize(types.TypeString(t, func(p *types.Package) string { return p.Name() }))
}

func (e *Enc) makeInterface(x *ssa.MakeInterface, st *State) {
	m := e.M
	a := e.val(x.X)
	xt := x.X.Type()
	tid := m.ilit(int64(e.typeID(xt)))
	if a.Bad {
		e.vals[x] = e.havocVal(x.Type(), "mi")
		return
	}
	if _, isPtr := xt.Underlying().(*types.Pointer); isPtr {
		e.vals[x] = Val{T: x.Type(), L: []string{tid, a.L[0], a.L[1]}}
		return
	}
	// box non-pointer values through an injective uninterpreted function
	ls, _ := m.leafSorts(xt)
	bn := e.boxName(xt)
	var sorts []string
	for _, s := range ls {
		sorts = append(sorts, m.smtSort(s))
	}
	I := m.smtSort(SI)
	var decl strings.Builder
	fmt.Fprintf(&decl, "(declare-fun %s (%s) %s)\n", bn, strings.Join(sorts, " "), I)
	for i, s := range sorts {
		fmt.Fprintf(&decl, "(declare-fun un%s_%d (%s) %s)\n", bn, i, I, s)
	}
	e.prelude(bn, decl.String())
	boxed := "(" + bn + " " + strings.Join(a.L, " ") + ")"
	if len(a.L) == 0 {
		boxed = bn
	}
	bv := e.def(e.fresh("boxed"), SI, boxed)
	for i := range ls {
		e.emitAssert(-1, eq(fmt.Sprintf("(un%s_%d %s)", bn, i, bv), a.L[i]))
	}
	e.emitAssert(-1, m.ilt(bv, m.ilit(0)))
	e.vals[x] = Val{T: x.Type(), L: []string{tid, bv, m.ilit(0)}}
}

func (e *Enc) implementsTerm(typ string, iface *types.Interface) string {
	// typ implements iface: enumerate known dynamic type ids (over-approximate unknown ones with a predicate)
	name := "impl_" + sanitize(types.TypeString(iface, nil))
	if len(name) > 60 {
		name = name[:60]
	}
	e.prelude(name, fmt.Sprintf("(declare-fun %s (%s) Bool)", name, e.M.smtSort(SI)))
	return "(" + name + " " + typ + ")"
}

func (e *Enc) typeAssert(x *ssa.TypeAssert, st *State) {
	m := e.M
	a := e.val(x.X)
	at := x.AssertedType
	var resT types.Type = at
	if a.Bad {
		e.vals[x] = e.havocVal(x.Type(), "ta")
		if !x.CommaOk {
			e.safety(true, "typeassert", x.Pos(), "false", "type assertion on unmodelled value")
		}
		return
	}
	var ok string
	var v Val
	if iface, isIface := at.Underlying().(*types.Interface); isIface {
		ok = and(not(eq(a.L[0], m.ilit(0))), e.implementsTerm(a.L[0], iface))
		if iface.NumMethods() == 0 {
			ok = not(eq(a.L[0], m.ilit(0)))
		}
		v = Val{T: resT, L: a.L}
	} else {
		tid := m.ilit(int64(e.typeID(at)))
		ok = eq(a.L[0], tid)
		if _, isPtr := at.Underlying().(*types.Pointer); isPtr {
			v = Val{T: resT, L: []string{a.L[1], a.L[2]}}
		} else {
			ls, okS := m.leafSorts(at)
			if !okS {
				v = Val{T: resT, Bad: true}
			} else {
				bn := e.boxName(at)
				var sorts []string
				for _, s := range ls {
					sorts = append(sorts, m.smtSort(s))
				}
				I := m.smtSort(SI)
				var decl strings.Builder
				fmt.Fprintf(&decl, "(declare-fun %s (%s) %s)\n", bn, strings.Join(sorts, " "), I)
				for i, s := range sorts {
					fmt.Fprintf(&decl, "(declare-fun un%s_%d (%s) %s)\n", bn, i, I, s)
				}
				e.prelude(bn, decl.String())
				v = Val{T: resT}
				for i := range ls {
					v.L = append(v.L, fmt.Sprintf("(un%s_%d %s)", bn, i, a.L[1]))
				}
			}
		}
	}
	if x.CommaOk {
		if v.Bad {
			e.vals[x] = e.havocVal(x.Type(), "ta")
			return
		}
		// on failure the value is the zero value
		z := e.zeroVal(resT)
		out := Val{T: x.Type()}
		okc := e.def(e.fresh("taok"), SBool, ok)
		for i := range v.L {
			out.L = append(out.L, ite(okc, v.L[i], z.L[i]))
		}
		out.L = append(out.L, okc)
		e.bind(x, out)
		// when the assertion holds the payload is a well-typed value of the asserted type
		e.emitAssert(-1, implies(okc, e.typeFacts(v, st)))
		return
	}
	e.safety(true, "typeassert", x.Pos(), ok, "type assertion holds")
	if v.Bad {
		e.vals[x] = e.havocVal(x.Type(), "ta")
		return
	}
	b := e.bind(x, v)
	e.emitAssert(e.curBlock, implies(e.reachHere(), e.typeFacts(b, st)))
}

func (e *Enc) resultNames() []string {
	sig := e.Fn.Signature
	n := sig.Results().Len()
	names := make([]string, n)
	for i := 0; i < n; i++ {
		names[i] = sig.Results().At(i).Name()
		if names[i] == "" || names[i] == "_" {
			if n == 1 {
				names[i] = "result"
			} else {
				names[i] = fmt.Sprintf("result%d", i)
			}
		}
	}
	if e.Ct != nil && len(e.Ct.Returns) == n {
		copy(names, e.Ct.Returns)
	}
	return names
}

func (e *Enc) ret(x *ssa.Return, st *State) {
	e.retOrd++
	if e.Ct == nil || len(e.Ct.Ensures) == 0 {
		return
	}
	names := e.resultNames()
	res := map[string]Val{}
	for i, r := range x.Results {
		res[names[i]] = e.val(r)
	}
	if len(x.Results) == 1 {
		res["result"] = e.val(x.Results[0])
	}
	env := e.fnEnv(st, res)
	for i, c := range e.Ct.Ensures {
		t := e.evalGoal(c.Expr, env)
		nb := len(e.obls)
		e.oblige("ensures", fmt.Sprintf("%s.ret%d", clauseLabel(c, i), e.retOrd), x.Pos(), e.reachHere(), t, "postcondition: "+c.Text)
		if len(e.obls) > nb {
			cc := c
			e.obls[len(e.obls)-1].Clause = &cc
		}
	}
	e.cover("cover", fmt.Sprintf("ret%d", e.retOrd), e.reachHere())
	// frame: heap components not declared modifiable must be unchanged for pre-existing objects
	e.frameAtReturn(st)
}

// frameCheck / frameAtReturn: the modifies clause of the function under contract is checked at return:
// for every heap component, every object that existed at entry and is not named in modifies keeps its contents.
func (e *Enc) frameCheck(x *ssa.Store, a Val, st *State) {}

func (e *Enc) frameAtReturn(st *State) {
	if e.Ct == nil || e.Ct.ModHeap || e.Ct.Trusted != "" {
		return
	}
	if !e.Ct.Pure && len(e.Ct.Modifies) == 0 {
		// no frame claimed
		return
	}
	m := e.M
	env := e.fnEnv(e.entry, nil)
	// objects allowed to change (wholly), and fields allowed to change (cell ranges of an object)
	allowed := map[Sort][]string{}
	type cellRange struct{ obj, lo, hi string }
	var fields []cellRange
	for _, c := range e.Ct.Modifies {
		if fobj, foff, ft, ok := e.evalModField(c, env); ok {
			lo, hi := e.modRange(foff, ft)
			fields = append(fields, cellRange{fobj, lo, hi})
			continue
		}
		objs, sorts := e.modTargets(c, env)
		for _, s := range sorts {
			allowed[s] = append(allowed[s], objs...)
		}
	}
	var ss []string
	for s := range st.H {
		ss = append(ss, string(s))
	}
	sort.Strings(ss)
	I := m.smtSort(SI)
	for _, s0 := range ss {
		s := Sort(s0)
		h0 := e.heap(e.entry, s)
		h1 := st.H[s]
		if h0 == h1 {
			continue
		}
		conds := []string{m.ilt("o", e.entry.Alloc), m.ile(m.ilit(0), "o")}
		for _, o := range allowed[s] {
			conds = append(conds, not(eq("o", o)))
		}
		for _, f := range fields {
			conds = append(conds, not(eq("o", f.obj)))
		}
		t := fmt.Sprintf("(forall ((o %s)) (=> %s (= (select %s o) (select %s o))))", I, and(conds...), h1, h0)
		// objects of which only some fields may change: every other cell is unchanged
		seenObj := map[string]bool{}
		for _, f := range fields {
			if seenObj[f.obj] {
				continue
			}
			seenObj[f.obj] = true
			whole := false
			for _, o := range allowed[s] {
				if o == f.obj {
					whole = true
				}
			}
			if whole {
				continue
			}
			var outside []string
			for _, g := range fields {
				if g.obj == f.obj {
					outside = append(outside, not(and(m.ile(g.lo, "k"), m.ilt("k", g.hi))))
				} else {
					// a field of possibly the same object under another name
					outside = append(outside, not(and(eq(g.obj, f.obj), m.ile(g.lo, "k"), m.ilt("k", g.hi))))
				}
			}
			t = and(t, fmt.Sprintf("(forall ((k %s)) (=> %s (= (select (select %s %s) k) (select (select %s %s) k))))", I, and(outside...), h1, f.obj, h0, f.obj))
		}
		e.oblige("frame", fmt.Sprintf("%s.ret%d", s0, e.retOrd), e.Fn.Pos(), e.reachHere(), t, "only objects named in modifies (or fresh) change in heap component "+s0)
	}
}

// modTargets evaluates a modifies clause to object ids and heap sorts.
func (e *Enc) modTargets(c Clause, env *Env) ([]string, []Sort) {
	v, t := e.evalModTarget(c, env)
	if v == "" {
		return nil, nil
	}
	sorts := map[Sort]bool{}
	e.allSorts(t, sorts)
	var ss []Sort
	for s := range sorts {
		ss = append(ss, s)
	}
	return []string{v}, ss
}
