package main

import (
	"fmt"
	"go/ast"
	"go/constant"
	"go/token"
	"go/types"
	"math/big"
	"os"
	"strconv"
	"strings"

	"golang.org/x/tools/go/ssa"
)

// Env is the evaluation environment for contract expressions.
type Env struct {
	e        *Enc
	vars     map[string]Val
	st       *State // state in which heap reads happen
	old      *State // state for old(...)
	oldVars  map[string]Val
	pkg      *ssa.Package
	loop     *loopInfo
	allocPre string // allocation watermark before a call (for fresh())
	depth    int
	quants   []*quantCtx
	pol      int // +1: formula is a goal (to be proved); -1: hypothesis (assumed); 0: unknown/mixed
	// instAt: while re-evaluating an assumed clause, every outermost universally quantified conjunct is replaced by its
	// instance at this index term (a consequence of the clause; see Enc.instancesFor)
	instAt string
	// atBlock: names of local variables are resolved by the closest dominating debug reference of this block
	atBlock *ssa.BasicBlock
}

func (env *Env) flip() *Env {
	n := *env
	n.pol = -env.pol
	return &n
}

func (env *Env) nopol() *Env {
	n := *env
	n.pol = 0
	return &n
}

// quantCtx supports "rebasing" a bounded quantifier over slice positions onto absolute heap offsets, so that
// the quantified formula mentions (select (select H obj) K) with a plain bound variable K: E-matching then works
// without having to match arithmetic terms. A quantifier body may index several slices (or one slice at shifted
// positions) by the bound variable; each (offset, shift) pair is a rebasing candidate. As a hypothesis the
// quantifier is emitted once per candidate (equivalent formulas, different triggers).
type quantCtx struct {
	bv    string      // bound variable name (index)
	k     string      // absolute-offset variable
	cands [][3]string // (slice offset, shift, stride in slots)
	apply int         // -1: collecting candidates (plain form); >=0: rebase on cands[apply]
}

func (env *Env) with(name string, v Val) *Env {
	n := *env
	n.vars = map[string]Val{}
	for k, x := range env.vars {
		n.vars[k] = x
	}
	n.vars[name] = v
	return &n
}

func (e *Enc) fnEnv(st *State, results map[string]Val) *Env {
	vars := map[string]Val{}
	for k, v := range e.params {
		vars[k] = v
	}
	for k, v := range results {
		vars[k] = v
	}
	return &Env{e: e, vars: vars, st: st, old: e.entry, pkg: e.Pkg, allocPre: e.entry.Alloc}
}

func (e *Enc) loopEnv(li *loopInfo, st *State) *Env {
	env := e.fnEnv(st, nil)
	env.loop = li
	return env
}

// evalGoal evaluates a clause that is to be proved. The result is the plain formula (bounded universals stay
// quantifiers); a second version with the outermost universals skolemised is remembered under it, and oblige builds an
// alternative query from that one plus explicit instances of the assumed universals (see instancesFor). Some goals are
// decided quickly only in the first form, others only in the second; both are raced.
func (e *Enc) evalGoal(x ast.Expr, env *Env) string {
	n := *env
	n.pol = 1
	save := e.noSkolem
	e.noSkolem = true
	plain := e.evalBool(x, &n)
	e.noSkolem = save
	if !e.noSkolem && e.pass == 2 && os.Getenv("GOVC_NOSKOLEM") == "" {
		n2 := *env
		n2.pol = 1
		nerr := len(e.errs)
		sk := e.evalBool(x, &n2)
		e.errs = e.errs[:nerr]
		if sk != plain && skolemRe.MatchString(sk) {
			e.skolemOf[plain] = sk
		}
	}
	return plain
}

func (e *Enc) evalHyp(x ast.Expr, env *Env) string {
	n := *env
	n.pol = -1
	return e.evalBool(x, &n)
}

func (e *Enc) evalBool(x ast.Expr, env *Env) string {
	v := e.evalExpr(x, env)
	if v.Bad || len(v.L) != 1 {
		e.errs = append(e.errs, fmt.Sprintf("contract expression is not boolean / not evaluable: %s", exprString(x)))
		return "false"
	}
	return v.L[0]
}

func exprString(x ast.Expr) string {
	var b strings.Builder
	writeExpr(&b, x)
	return b.String()
}

func writeExpr(b *strings.Builder, x ast.Expr) {
	switch n := x.(type) {
	case *ast.Ident:
		b.WriteString(n.Name)
	case *ast.BasicLit:
		b.WriteString(n.Value)
	case *ast.BinaryExpr:
		writeExpr(b, n.X)
		b.WriteString(" " + n.Op.String() + " ")
		writeExpr(b, n.Y)
	case *ast.UnaryExpr:
		b.WriteString(n.Op.String())
		writeExpr(b, n.X)
	case *ast.ParenExpr:
		b.WriteString("(")
		writeExpr(b, n.X)
		b.WriteString(")")
	case *ast.CallExpr:
		writeExpr(b, n.Fun)
		b.WriteString("(")
		for i, a := range n.Args {
			if i > 0 {
				b.WriteString(", ")
			}
			writeExpr(b, a)
		}
		b.WriteString(")")
	case *ast.SelectorExpr:
		writeExpr(b, n.X)
		b.WriteString("." + n.Sel.Name)
	case *ast.IndexExpr:
		writeExpr(b, n.X)
		b.WriteString("[")
		writeExpr(b, n.Index)
		b.WriteString("]")
	case *ast.TypeAssertExpr:
		writeExpr(b, n.X)
		b.WriteString(".(")
		writeExpr(b, n.Type)
		b.WriteString(")")
	case *ast.StarExpr:
		b.WriteString("*")
		writeExpr(b, n.X)
	case *ast.ArrayType:
		b.WriteString("[]")
		writeExpr(b, n.Elt)
	case *ast.SliceExpr:
		writeExpr(b, n.X)
		b.WriteString("[:]")
	default:
		fmt.Fprintf(b, "<%T>", x)
	}
}

func (e *Enc) bad(msg string, x ast.Expr) Val {
	e.errs = append(e.errs, fmt.Sprintf("contract: %s: %s", msg, exprString(x)))
	return Val{Bad: true}
}

// resolveType resolves a Go type expression string in the package scope.
func (e *Enc) resolveType(pkg *ssa.Package, s string) types.Type {
	s = strings.TrimSpace(s)
	switch s {
	case "int":
		return types.Typ[types.Int]
	case "bool":
		return types.Typ[types.Bool]
	case "string":
		return types.Typ[types.String]
	case "uint8":
		return types.Typ[types.Uint8]
	case "byte":
		return types.Universe.Lookup("byte").Type()
	case "int32":
		return types.Typ[types.Int32]
	case "rune":
		return types.Universe.Lookup("rune").Type()
	case "uint":
		return types.Typ[types.Uint]
	case "uint32":
		return types.Typ[types.Uint32]
	case "uint64":
		return types.Typ[types.Uint64]
	case "int64":
		return types.Typ[types.Int64]
	case "uint16":
		return types.Typ[types.Uint16]
	case "[]string":
		return types.NewSlice(types.Typ[types.String])
	case "[]int":
		return types.NewSlice(types.Typ[types.Int])
	case "[]byte":
		return types.NewSlice(types.Typ[types.Uint8])
	}
	if strings.HasPrefix(s, "*") && !strings.ContainsAny(s[1:], "[]* ") {
		if t := e.resolveType(pkg, s[1:]); t != nil {
			return types.NewPointer(t)
		}
	}
	if i := strings.LastIndex(s, "."); i > 0 && !strings.ContainsAny(s, "[]* ") {
		// qualified name: search every loaded package with that name
		for _, sp := range e.P.Prog.AllPackages() {
			if sp.Pkg.Name() == s[:i] {
				if obj := sp.Pkg.Scope().Lookup(s[i+1:]); obj != nil {
					if tn, ok := obj.(*types.TypeName); ok {
						return tn.Type()
					}
				}
			}
		}
	}
	if pkg != nil {
		if tv, err := types.Eval(e.P.Prog.Fset, pkg.Pkg, token.NoPos, s); err == nil && tv.Type != nil {
			return tv.Type
		}
		// qualified name pkg.T via imports
		if i := strings.LastIndex(s, "."); i > 0 {
			prefix := strings.TrimLeft(s[:i], "*[]")
			lead := s[:len(s[:i])-len(prefix)]
			for _, imp := range pkg.Pkg.Imports() {
				if imp.Name() == prefix {
					if obj := imp.Scope().Lookup(s[i+1:]); obj != nil {
						t := obj.Type()
						for j := len(lead) - 1; j >= 0; j-- {
							if lead[j] == '*' {
								t = types.NewPointer(t)
							}
						}
						if strings.HasPrefix(lead, "[]") {
							t = types.NewSlice(t)
						}
						return t
					}
				}
			}
		}
	}
	return nil
}

// lookupConst finds a package-level constant or variable-free name.
func (e *Enc) lookupPkgObj(pkg *ssa.Package, name string) types.Object {
	if pkg == nil {
		return nil
	}
	return pkg.Pkg.Scope().Lookup(name)
}

func (e *Enc) constToVal(c *types.Const) Val {
	t := c.Type()
	switch c.Val().Kind() {
	case constant.Int:
		n, _ := new(big.Int).SetString(c.Val().ExactString(), 10)
		if b, ok := t.Underlying().(*types.Basic); ok && b.Info()&types.IsUntyped != 0 {
			return Val{Const: n}
		}
		return Val{T: t, L: []string{e.M.lit(e.M.intSort(t), n)}, Const: nil}
	case constant.Bool:
		if constant.BoolVal(c.Val()) {
			return Val{T: types.Typ[types.Bool], L: []string{"true"}}
		}
		return Val{T: types.Typ[types.Bool], L: []string{"false"}}
	case constant.String:
		return Val{T: types.Typ[types.String], L: []string{e.strLit(constant.StringVal(c.Val()))}}
	}
	return Val{Bad: true}
}

// coerce a possibly-constant value to an integer leaf of sort s.
func (e *Enc) coerceInt(v Val, s Sort) string {
	if v.Const != nil && v.T == nil {
		return e.M.lit(s, v.Const)
	}
	if len(v.L) == 1 {
		return v.L[0]
	}
	return e.M.lit(s, big.NewInt(0))
}

func (e *Enc) valSort(v Val) Sort {
	if v.T == nil {
		return SI
	}
	ls, ok := e.M.leafSorts(v.T)
	if !ok || len(ls) != 1 {
		return SI
	}
	return ls[0]
}

// unify brings two values to a common representation for a binary operation.
func (e *Enc) unify(a, b Val) (Val, Val) {
	if a.Const != nil && a.T == nil && b.T != nil {
		s := e.valSort(b)
		return Val{T: b.T, L: []string{e.M.lit(s, a.Const)}}, b
	}
	if b.Const != nil && b.T == nil && a.T != nil {
		s := e.valSort(a)
		return a, Val{T: a.T, L: []string{e.M.lit(s, b.Const)}}
	}
	if a.Const != nil && a.T == nil && b.Const != nil && b.T == nil {
		return Val{T: types.Typ[types.Int], L: []string{e.M.lit(SI, a.Const)}}, Val{T: types.Typ[types.Int], L: []string{e.M.lit(SI, b.Const)}}
	}
	return a, b
}

func (e *Enc) lookupName(name string, env *Env) (Val, bool) {
	if v, ok := env.vars[name]; ok && env.loop == nil {
		return v, true
	}
	if env.loop == nil && env.atBlock != nil {
		// a local variable at an instruction of atBlock: the latest debug reference in that block, else the closest one
		// in a dominating block
		var best *dbgRef
		for i := range e.dbg[name] {
			r := &e.dbg[name][i]
			if r.block == env.atBlock.Index {
				best = r
			}
		}
		if best == nil {
			for i := range e.dbg[name] {
				r := &e.dbg[name][i]
				rb := e.Fn.Blocks[r.block]
				if rb != env.atBlock && rb.Dominates(env.atBlock) {
					if best == nil || e.Fn.Blocks[best.block].Dominates(rb) {
						best = r
					}
				}
			}
		}
		if best != nil {
			v := e.val(best.val)
			if !v.Bad {
				if best.isAddr {
					return e.load(env.st, derefType(best.val.Type()), v.L[0], v.L[1]), true
				}
				return v, true
			}
		}
	}
	if env.loop != nil {
		// bound variables and explicit vars that are not function parameters take precedence
		if v, ok := env.vars[name]; ok {
			if _, isParam := e.params[name]; !isParam {
				return v, true
			}
		}
		if v, ok := e.lookupAtLoop(name, env); ok {
			return v, true
		}
		if v, ok := env.vars[name]; ok {
			return v, true
		}
	}
	return Val{}, false
}

// lookupAtLoop resolves a source-level variable name at a loop head.
func (e *Enc) lookupAtLoop(name string, env *Env) (Val, bool) {
	li := env.loop
	h := li.head
	for _, ins := range h.Instrs {
		phi, ok := ins.(*ssa.Phi)
		if !ok {
			break
		}
		if phi.Comment == name {
			return e.val(phi), true
		}
	}
	refs := e.dbg[name]
	definedOK := func(v ssa.Value) bool {
		ins, ok := v.(ssa.Instruction)
		if !ok || ins.Block() == nil {
			return true // params, consts, globals
		}
		if ins.Block() == h {
			return true
		}
		return !li.blocks[ins.Block().Index] && ins.Block().Dominates(h)
	}
	pick := func(r dbgRef) (Val, bool) {
		if !definedOK(r.val) {
			return Val{}, false
		}
		v := e.val(r.val)
		if v.Bad {
			return Val{}, false
		}
		if r.isAddr {
			t := derefType(r.val.Type())
			return e.load(env.st, t, v.L[0], v.L[1]), true
		}
		return v, true
	}
	// refs inside the loop, head block first
	for _, r := range refs {
		if r.block == h.Index {
			if v, ok := pick(r); ok {
				return v, true
			}
		}
	}
	for _, r := range refs {
		if li.blocks[r.block] && r.block != h.Index {
			if v, ok := pick(r); ok {
				return v, true
			}
		}
	}
	// refs outside the loop: closest dominating
	best := -1
	var bestV Val
	for _, r := range refs {
		if li.blocks[r.block] {
			continue
		}
		if !e.Fn.Blocks[r.block].Dominates(h) {
			continue
		}
		if v, ok := pick(r); ok && r.block >= best {
			best, bestV = r.block, v
		}
	}
	if best >= 0 {
		return bestV, true
	}
	return Val{}, false
}

func (e *Enc) evalExpr(x ast.Expr, env *Env) Val {
	m := e.M
	switch n := x.(type) {
	case *ast.ParenExpr:
		return e.evalExpr(n.X, env)
	case *ast.BasicLit:
		switch n.Kind {
		case token.INT:
			v, ok := new(big.Int).SetString(n.Value, 0)
			if !ok {
				return e.bad("bad int literal", x)
			}
			return Val{Const: v}
		case token.CHAR:
			r, _, _, err := strconv.UnquoteChar(n.Value[1:len(n.Value)-1], '\'')
			if err != nil {
				return e.bad("bad char literal", x)
			}
			return Val{Const: big.NewInt(int64(r))}
		case token.STRING:
			s, err := strconv.Unquote(n.Value)
			if err != nil {
				return e.bad("bad string literal", x)
			}
			return Val{T: types.Typ[types.String], L: []string{e.strLit(s)}}
		}
		return e.bad("unsupported literal", x)
	case *ast.Ident:
		switch n.Name {
		case "true":
			return Val{T: types.Typ[types.Bool], L: []string{"true"}}
		case "false":
			return Val{T: types.Typ[types.Bool], L: []string{"false"}}
		case "nil":
			return Val{T: types.Typ[types.UntypedNil], L: []string{m.ilit(0)}}
		case "MaxInt":
			return Val{Const: new(big.Int).Sub(new(big.Int).Lsh(big.NewInt(1), 63), big.NewInt(1))}
		case "MinInt":
			return Val{Const: new(big.Int).Neg(new(big.Int).Lsh(big.NewInt(1), 63))}
		}
		if v, ok := e.lookupName(n.Name, env); ok {
			return v
		}
		if gt, ok := e.CS.Ghosts[n.Name]; ok {
			t := e.resolveType(env.pkg, gt)
			if t == nil {
				t = e.resolveType(e.Pkg, gt)
			}
			if t == nil {
				return e.bad("ghost variable of unknown type "+gt, x)
			}
			return e.load(env.st, t, e.ghostObj(n.Name), m.ilit(0))
		}
		if obj := e.lookupPkgObj(env.pkg, n.Name); obj != nil {
			switch o := obj.(type) {
			case *types.Const:
				return e.constToVal(o)
			case *types.Var:
				// package-level variable: load from its global object
				g := env.pkg.Members[n.Name]
				if gv, ok := g.(*ssa.Global); ok {
					p := e.val(gv)
					return e.load(env.st, o.Type(), p.L[0], p.L[1])
				}
			}
		}
		return e.bad("unknown name", x)
	case *ast.UnaryExpr:
		if n.Op == token.AND {
			// &x for a local variable that lives in memory (its debug references are addresses): the address
			if id, ok := n.X.(*ast.Ident); ok {
				for _, r := range e.dbg[id.Name] {
					if r.isAddr {
						if v := e.val(r.val); !v.Bad && len(v.L) == 2 {
							return v
						}
					}
				}
			}
			return e.bad("address of something that is not a local variable in memory", n)
		}
		sub := env
		if n.Op == token.NOT {
			sub = env.flip()
		}
		a := e.evalExpr(n.X, sub)
		if a.Bad {
			return a
		}
		switch n.Op {
		case token.NOT:
			return Val{T: types.Typ[types.Bool], L: []string{not(a.L[0])}}
		case token.SUB:
			if a.Const != nil && a.T == nil {
				return Val{Const: new(big.Int).Neg(a.Const)}
			}
			if m == ModeBV {
				return Val{T: a.T, L: []string{"(bvneg " + a.L[0] + ")"}}
			}
			return Val{T: a.T, L: []string{"(- " + a.L[0] + ")"}}
		case token.XOR:
			if m == ModeBV && a.T != nil {
				return Val{T: a.T, L: []string{"(bvnot " + a.L[0] + ")"}}
			}
		}
		return e.bad("unsupported unary", x)
	case *ast.BinaryExpr:
		return e.evalBinary(n, env)
	case *ast.StarExpr:
		a := e.evalExpr(n.X, env)
		if a.Bad || a.T == nil {
			return e.bad("cannot deref", x)
		}
		t := derefType(a.T)
		if t == nil {
			return e.bad("deref of non-pointer", x)
		}
		return e.load(env.st, t, a.L[0], a.L[1])
	case *ast.SelectorExpr:
		// package-qualified constant?
		if id, ok := n.X.(*ast.Ident); ok {
			if _, isVar := e.lookupName(id.Name, env); !isVar && env.pkg != nil {
				for _, imp := range env.pkg.Pkg.Imports() {
					if imp.Name() == id.Name {
						if obj := imp.Scope().Lookup(n.Sel.Name); obj != nil {
							if c, ok := obj.(*types.Const); ok {
								return e.constToVal(c)
							}
						}
					}
				}
				// allow referring to constants of repo packages by package name even if not imported
				for path, sp := range e.P.Pkgs {
					if sp != nil && (strings.HasSuffix(path, "/"+id.Name) || path == id.Name) {
						if obj := sp.Pkg.Scope().Lookup(n.Sel.Name); obj != nil {
							if c, ok := obj.(*types.Const); ok {
								return e.constToVal(c)
							}
						}
					}
				}
			}
		}
		a := e.evalExpr(n.X, env)
		if a.Bad || a.T == nil {
			return e.bad("cannot select", x)
		}
		return e.selectField(a, n.Sel.Name, env, x)
	case *ast.IndexExpr:
		a := e.evalExpr(n.X, env)
		i := e.evalExpr(n.Index, env)
		if a.Bad || i.Bad || a.T == nil {
			return e.bad("cannot index", x)
		}
		idx := e.coerceInt(i, SI)
		if i.T != nil {
			idx = e.toIndex(i, i.T)
		}
		switch u := a.T.Underlying().(type) {
		case *types.Slice:
			sz := m.ilit(slots(u.Elem()))
			if slots(u.Elem()) >= 1 && i.QV != "" {
				for qi := len(env.quants) - 1; qi >= 0; qi-- {
					q := env.quants[qi]
					if q.bv != i.QV {
						continue
					}
					c := [3]string{a.L[1], i.QShift, fmt.Sprint(slots(u.Elem()))}
					if q.apply < 0 {
						found := false
						for _, x := range q.cands {
							if x == c {
								found = true
							}
						}
						if !found && len(q.cands) < 4 {
							q.cands = append(q.cands, c)
						}
					} else if q.apply < len(q.cands) && q.cands[q.apply] == c {
						return e.load(env.st, u.Elem(), a.L[0], q.k)
					}
					break
				}
			}
			return e.load(env.st, u.Elem(), a.L[0], m.iadd(a.L[1], m.imul(idx, sz)))
		case *types.Basic:
			e.needStr()
			return Val{T: types.Typ[types.Uint8], L: []string{e.fromIndexSort("(sat "+a.L[0]+" "+idx+")", types.Typ[types.Uint8])}}
		case *types.Pointer:
			if arr, ok := u.Elem().Underlying().(*types.Array); ok {
				sz := m.ilit(slots(arr.Elem()))
				return e.load(env.st, arr.Elem(), a.L[0], m.iadd(a.L[1], m.imul(idx, sz)))
			}
		}
		return e.bad("unsupported index base", x)
	case *ast.SliceExpr:
		a := e.evalExpr(n.X, env)
		if a.Bad || a.T == nil {
			return e.bad("cannot slice", x)
		}
		var lo, hi string
		if n.Low != nil {
			lo = e.coerceInt(e.evalExpr(n.Low, env), SI)
		} else {
			lo = m.ilit(0)
		}
		switch u := a.T.Underlying().(type) {
		case *types.Basic:
			e.needSsub()
			if n.High != nil {
				hi = e.coerceInt(e.evalExpr(n.High, env), SI)
			} else {
				hi = "(slen " + a.L[0] + ")"
			}
			return Val{T: a.T, L: []string{"(ssub " + a.L[0] + " " + lo + " " + hi + ")"}}
		case *types.Slice:
			if n.High != nil {
				hi = e.coerceInt(e.evalExpr(n.High, env), SI)
			} else {
				hi = a.L[2]
			}
			sz := m.ilit(slots(u.Elem()))
			return Val{T: a.T, L: []string{a.L[0], m.iadd(a.L[1], m.imul(lo, sz)), m.isub(hi, lo), m.isub(a.L[3], lo)}}
		}
		return e.bad("unsupported slice base", x)
	case *ast.CallExpr:
		return e.evalCall(n, env)
	case *ast.TypeAssertExpr:
		// x.(T) in a contract: the dynamic value of interface x viewed as T (meaningful where dyntype(x) is T)
		a := e.evalExpr(n.X, env)
		if a.Bad || a.T == nil || len(a.L) != 3 {
			return e.bad("type assertion on non-interface", x)
		}
		t := e.resolveType(env.pkg, exprString(n.Type))
		if t == nil {
			return e.bad("type assertion to unknown type", x)
		}
		if _, isPtr := t.Underlying().(*types.Pointer); isPtr {
			return Val{T: t, L: []string{a.L[1], a.L[2]}}
		}
		ls, ok := m.leafSorts(t)
		if !ok {
			return e.bad("type assertion to unrepresentable type", x)
		}
		bn := e.boxName(t)
		var sorts []string
		for _, so := range ls {
			sorts = append(sorts, m.smtSort(so))
		}
		I := m.smtSort(SI)
		var decl strings.Builder
		fmt.Fprintf(&decl, "(declare-fun %s (%s) %s)\n", bn, strings.Join(sorts, " "), I)
		for i, so := range sorts {
			fmt.Fprintf(&decl, "(declare-fun un%s_%d (%s) %s)\n", bn, i, I, so)
		}
		e.prelude(bn, decl.String())
		out := Val{T: t}
		for i := range ls {
			out.L = append(out.L, fmt.Sprintf("(un%s_%d %s)", bn, i, a.L[1]))
		}
		return out
	}
	return e.bad("unsupported expression", x)
}

func (e *Enc) selectField(a Val, name string, env *Env, x ast.Expr) Val {
	m := e.M
	t := a.T
	isPtr := false
	if p, ok := t.Underlying().(*types.Pointer); ok {
		t = p.Elem()
		isPtr = true
	}
	st, ok := t.Underlying().(*types.Struct)
	if !ok {
		return e.bad("select on non-struct", x)
	}
	for i := 0; i < st.NumFields(); i++ {
		f := st.Field(i)
		if f.Name() == name {
			if isPtr {
				return e.load(env.st, f.Type(), a.L[0], m.iadd(a.L[1], m.ilit(fieldOffset(st, i))))
			}
			lo, hi, ok := m.fieldLeafRange(st, i)
			if !ok || hi > len(a.L) {
				return e.bad("field not representable", x)
			}
			return Val{T: f.Type(), L: a.L[lo:hi]}
		}
	}
	// embedded structs
	for i := 0; i < st.NumFields(); i++ {
		f := st.Field(i)
		if f.Embedded() {
			var inner Val
			if isPtr {
				inner = e.load(env.st, f.Type(), a.L[0], m.iadd(a.L[1], m.ilit(fieldOffset(st, i))))
			} else {
				lo, hi, ok := m.fieldLeafRange(st, i)
				if !ok {
					continue
				}
				inner = Val{T: f.Type(), L: a.L[lo:hi]}
			}
			if _, isS := derefOrSelf(f.Type()).Underlying().(*types.Struct); isS {
				save := len(e.errs)
				v := e.selectField(inner, name, env, x)
				if !v.Bad {
					return v
				}
				e.errs = e.errs[:save]
			}
		}
	}
	return e.bad("no such field "+name, x)
}

func derefOrSelf(t types.Type) types.Type {
	if p, ok := t.Underlying().(*types.Pointer); ok {
		return p.Elem()
	}
	return t
}

func (e *Enc) evalBinary(n *ast.BinaryExpr, env *Env) Val {
	m := e.M
	boolT := types.Typ[types.Bool]
	switch n.Op {
	case token.LAND:
		a, b := e.evalExpr(n.X, env), e.evalExpr(n.Y, env)
		if a.Bad || b.Bad {
			return Val{Bad: true}
		}
		return Val{T: boolT, L: []string{and(a.L[0], b.L[0])}}
	case token.LOR:
		a, b := e.evalExpr(n.X, env), e.evalExpr(n.Y, env)
		if a.Bad || b.Bad {
			return Val{Bad: true}
		}
		return Val{T: boolT, L: []string{or(a.L[0], b.L[0])}}
	}
	env = env.nopol()
	a, b := e.evalExpr(n.X, env), e.evalExpr(n.Y, env)
	if a.Bad || b.Bad {
		return Val{Bad: true}
	}
	// typed constants combined with a bitwise operator (langBashLike|LangMirBSDKorn): fold, as the compiler does; in
	// integer mode the bitwise operators are otherwise uninterpreted
	if e.M == ModeInt && a.T != nil && b.T != nil && len(a.L) == 1 && len(b.L) == 1 && (n.Op == token.OR || n.Op == token.AND || n.Op == token.XOR || n.Op == token.AND_NOT) {
		if _, isInt := a.T.Underlying().(*types.Basic); isInt && types.Identical(a.T, b.T) {
			x, okx := new(big.Int).SetString(a.L[0], 10)
			y, oky := new(big.Int).SetString(b.L[0], 10)
			if okx && oky && x.Sign() >= 0 && y.Sign() >= 0 {
				r := new(big.Int)
				switch n.Op {
				case token.OR:
					r.Or(x, y)
				case token.AND:
					r.And(x, y)
				case token.XOR:
					r.Xor(x, y)
				case token.AND_NOT:
					r.AndNot(x, y)
				}
				return Val{T: a.T, L: []string{m.lit(m.intSort(a.T), r)}}
			}
		}
	}
	// constant folding
	if a.Const != nil && a.T == nil && b.Const != nil && b.T == nil {
		r := new(big.Int)
		switch n.Op {
		case token.ADD:
			return Val{Const: r.Add(a.Const, b.Const)}
		case token.SUB:
			return Val{Const: r.Sub(a.Const, b.Const)}
		case token.MUL:
			return Val{Const: r.Mul(a.Const, b.Const)}
		case token.SHL:
			return Val{Const: r.Lsh(a.Const, uint(b.Const.Int64()))}
		case token.SHR:
			return Val{Const: r.Rsh(a.Const, uint(b.Const.Int64()))}
		case token.QUO:
			if b.Const.Sign() != 0 {
				return Val{Const: r.Quo(a.Const, b.Const)}
			}
		case token.AND:
			return Val{Const: r.And(a.Const, b.Const)}
		case token.OR:
			return Val{Const: r.Or(a.Const, b.Const)}
		}
	}
	// nil comparisons
	if n.Op == token.EQL || n.Op == token.NEQ {
		isNil := func(v Val) bool {
			if v.T == nil {
				return false
			}
			bt, ok := v.T.(*types.Basic)
			return ok && bt.Kind() == types.UntypedNil
		}
		var r string
		switch {
		case isNil(b) && !isNil(a):
			r = eq(a.L[0], m.ilit(0))
		case isNil(a) && !isNil(b):
			r = eq(b.L[0], m.ilit(0))
		default:
			a2, b2 := e.unify(a, b)
			t := a2.T
			if t == nil {
				t = types.Typ[types.Int]
			}
			r = e.valEq(a2, b2, t)
		}
		if n.Op == token.NEQ {
			r = not(r)
		}
		return Val{T: boolT, L: []string{r}}
	}
	// shifts: the count is unified separately
	if n.Op == token.SHL || n.Op == token.SHR {
		if a.T == nil {
			a = Val{T: types.Typ[types.Int], L: []string{m.lit(SI, a.Const)}}
		}
		yt := b.T
		if yt == nil {
			yt = types.Typ[types.Uint]
			b = Val{T: yt, L: []string{m.lit(SI, b.Const)}}
		}
		var yv ssa.Value
		if b.Const != nil {
			yv = ssa.NewConst(constant.MakeInt64(b.Const.Int64()), yt)
		}
		saveNo := e.noSafety
		r := e.intArithContract(n.Op, a.T, yt, a.L[0], b.L[0], nil, yv)
		e.noSafety = saveNo
		if r == "" {
			return e.bad("unsupported shift", n)
		}
		return Val{T: a.T, L: []string{r}}
	}
	a, b = e.unify(a, b)
	t := a.T
	if t == nil {
		t = types.Typ[types.Int]
	}
	ub, isBasic := t.Underlying().(*types.Basic)
	if !isBasic {
		return e.bad("unsupported operand type", n)
	}
	if ub.Info()&types.IsString != 0 {
		if n.Op == token.ADD {
			e.needScat()
			return Val{T: t, L: []string{"(scat " + a.L[0] + " " + b.L[0] + ")"}}
		}
		return e.bad("unsupported string op", n)
	}
	if ub.Info()&types.IsInteger == 0 {
		return e.bad("unsupported operand kind", n)
	}
	_, signed := intBits(ub)
	A, B := a.L[0], b.L[0]
	if m == ModeInt && (n.Op == token.ADD || n.Op == token.SUB) {
		// keep the affine decomposition "bound variable + shift" for quantifier rebasing
		switch {
		case a.QV != "" && b.QV == "" && n.Op == token.ADD:
			return Val{T: t, L: []string{m.iadd(A, B)}, QV: a.QV, QShift: m.iadd(a.QShift, B)}
		case a.QV != "" && b.QV == "" && n.Op == token.SUB:
			return Val{T: t, L: []string{m.isub(A, B)}, QV: a.QV, QShift: m.isub(a.QShift, B)}
		case b.QV != "" && a.QV == "" && n.Op == token.ADD:
			return Val{T: t, L: []string{m.iadd(A, B)}, QV: b.QV, QShift: m.iadd(b.QShift, A)}
		}
	}
	switch n.Op {
	case token.LSS:
		return Val{T: boolT, L: []string{m.lt(signed, A, B)}}
	case token.LEQ:
		return Val{T: boolT, L: []string{m.le(signed, A, B)}}
	case token.GTR:
		return Val{T: boolT, L: []string{m.lt(signed, B, A)}}
	case token.GEQ:
		return Val{T: boolT, L: []string{m.le(signed, B, A)}}
	}
	var xv, yv ssa.Value
	if be, ok := n.Y.(*ast.BasicLit); ok && be.Kind == token.INT {
		if c, ok := new(big.Int).SetString(be.Value, 0); ok && c.IsInt64() {
			yv = ssa.NewConst(constant.MakeInt64(c.Int64()), t)
		}
	}
	r := e.intArithContract(n.Op, t, t, A, B, xv, yv)
	if r == "" {
		return e.bad("unsupported arithmetic", n)
	}
	return Val{T: t, L: []string{r}}
}

// intArithContract is intArith without safety obligations and, in int mode, without modular wrap
// (contract arithmetic on int is mathematical; sized unsigned types wrap as in Go).
func (e *Enc) intArithContract(op token.Token, xt, yt types.Type, A, B string, xv, yv ssa.Value) string {
	save := e.noSafety
	e.noSafety = true
	e.inContractEval = true
	defer func() { e.noSafety = save; e.inContractEval = false }()
	if xv == nil {
		xv = ssa.NewConst(nil, types.Typ[types.UntypedNil])
	}
	if yv == nil {
		yv = ssa.NewConst(nil, types.Typ[types.UntypedNil])
	}
	return e.intArith(op, xt, yt, A, B, xv, yv, false, token.NoPos)
}

func (e *Enc) evalCall(n *ast.CallExpr, env *Env) Val {
	m := e.M
	boolT := types.Typ[types.Bool]
	fname := ""
	switch f := n.Fun.(type) {
	case *ast.Ident:
		fname = f.Name
	case *ast.SelectorExpr:
		if id, ok := f.X.(*ast.Ident); ok {
			fname = id.Name + "." + f.Sel.Name
		}
	}
	switch fname {
	case "len", "cap":
		a := e.evalExpr(n.Args[0], env)
		if a.Bad || a.T == nil {
			return e.bad("len of ?", n)
		}
		switch u := a.T.Underlying().(type) {
		case *types.Slice:
			if fname == "len" {
				return Val{T: types.Typ[types.Int], L: []string{a.L[2]}}
			}
			return Val{T: types.Typ[types.Int], L: []string{a.L[3]}}
		case *types.Basic:
			e.needStr()
			return Val{T: types.Typ[types.Int], L: []string{"(slen " + a.L[0] + ")"}}
		case *types.Array:
			return Val{Const: big.NewInt(u.Len())}
		}
		return e.bad("len of unsupported type", n)
	case "old":
		oe := *env
		oe.loop = nil
		oe.st = env.old
		if env.oldVars != nil {
			oe.vars = env.oldVars
		}
		return e.evalExpr(n.Args[0], &oe)
	case "implies":
		a, b := e.evalExpr(n.Args[0], env.flip()), e.evalExpr(n.Args[1], env)
		if a.Bad || b.Bad {
			return Val{Bad: true}
		}
		return Val{T: boolT, L: []string{implies(a.L[0], b.L[0])}}
	case "iff":
		a, b := e.evalExpr(n.Args[0], env.nopol()), e.evalExpr(n.Args[1], env.nopol())
		if a.Bad || b.Bad {
			return Val{Bad: true}
		}
		return Val{T: boolT, L: []string{eq(a.L[0], b.L[0])}}
	case "ite":
		c, a, b := e.evalExpr(n.Args[0], env.nopol()), e.evalExpr(n.Args[1], env), e.evalExpr(n.Args[2], env)
		if c.Bad || a.Bad || b.Bad {
			return Val{Bad: true}
		}
		a, b = e.unify(a, b)
		out := Val{T: a.T}
		for i := range a.L {
			out.L = append(out.L, ite(c.L[0], a.L[i], b.L[i]))
		}
		return out
	case "all", "any":
		// all(i, lo, hi, P): forall i. lo <= i < hi => P
		id, ok := n.Args[0].(*ast.Ident)
		if !ok || len(n.Args) != 4 {
			return e.bad("all/any(i, lo, hi, P)", n)
		}
		lo := e.coerceInt(e.evalExpr(n.Args[1], env), SI)
		hi := e.coerceInt(e.evalExpr(n.Args[2], env), SI)
		e.n++
		bv := fmt.Sprintf("%s!q%d", id.Name, e.n)
		q := &quantCtx{bv: bv, k: bv + "!k", apply: -1}
		qn := map[string]string{"all": "forall", "any": "exists"}[fname]
		if len(env.quants) == 0 && ((fname == "all" && env.pol < 0) || (fname == "any" && env.pol > 0)) {
			if env.instAt != "" {
				// instance of an assumed universal (resp. witness candidate for an existential goal) at a given index
				t := env.instAt
				switch t {
				case "@first":
					t = lo
				case "@last":
					t = m.isub(hi, m.ilit(1))
				}
				inner := env.with(id.Name, Val{T: types.Typ[types.Int], L: []string{t}})
				inner.instAt = ""
				p := e.evalExpr(n.Args[3], inner)
				if p.Bad || len(p.L) != 1 {
					return Val{Bad: true}
				}
				if fname == "all" {
					return Val{T: boolT, L: []string{implies(and(m.ile(lo, t), m.ilt(t, hi)), p.L[0])}}
				}
				return Val{T: boolT, L: []string{and(m.ile(lo, t), m.ilt(t, hi), p.L[0])}}
			}
			e.sawHypAll = true
		}
		if len(env.quants) == 0 && env.instAt == "" && !e.noSkolem && os.Getenv("GOVC_NOSKOLEM") == "" && ((fname == "all" && env.pol > 0) || (fname == "any" && env.pol < 0)) {
			// a universal goal (existential hypothesis) is skolemised here, so that the assumed universals can be
			// instantiated at the skolem constant (and at the bounds) explicitly
			e.n++
			sk := fmt.Sprintf("sk!%d", e.n)
			e.emitDecl(fmt.Sprintf("(declare-const %s %s)", sk, m.smtSort(SI)))
			e.skolemBounds[sk] = [2]string{lo, hi}
			inner := env.with(id.Name, Val{T: types.Typ[types.Int], L: []string{sk}})
			p := e.evalExpr(n.Args[3], inner)
			if p.Bad || len(p.L) != 1 {
				return Val{Bad: true}
			}
			if fname == "all" {
				return Val{T: boolT, L: []string{implies(and(m.ile(lo, sk), m.ilt(sk, hi)), p.L[0])}}
			}
			return Val{T: boolT, L: []string{and(m.ile(lo, sk), m.ilt(sk, hi), p.L[0])}}
		}
		rng := and(m.ile(lo, bv), m.ilt(bv, hi))
		guard := "true"
		evalBody := func() (string, bool) {
			inner := env.with(id.Name, Val{T: types.Typ[types.Int], L: []string{bv}, QV: bv, QShift: m.ilit(0)})
			inner.quants = append(append([]*quantCtx(nil), env.quants...), q)
			p := e.evalExpr(n.Args[3], inner)
			if p.Bad || len(p.L) != 1 {
				return "", false
			}
			if fname == "all" {
				return implies(and(guard, rng), p.L[0]), true
			}
			return and(guard, rng, p.L[0]), true
		}
		plainBody, ok2 := evalBody()
		if !ok2 {
			return Val{Bad: true}
		}
		plain := fmt.Sprintf("(%s ((%s %s)) %s)", qn, bv, m.smtSort(SI), plainBody)
		if len(q.cands) == 0 || os.Getenv("GOVC_QMODE") == "plain" {
			return Val{T: boolT, L: []string{plain}}
		}
		var forms []string
		for ci := range q.cands {
			q.apply = ci
			// index = (K - off) / stride - shift, for K an element start: (K - off) mod stride == 0
			delta := m.isub(q.k, q.cands[ci][0])
			idxTerm := m.isub(delta, q.cands[ci][1])
			guard = "true"
			if q.cands[ci][2] != "1" {
				if m == ModeBV {
					continue // strided rebasing only over mathematical integers
				}
				idxTerm = m.isub("(div "+delta+" "+q.cands[ci][2]+")", q.cands[ci][1])
				guard = eq("(mod "+delta+" "+q.cands[ci][2]+")", "0")
			}
			body, ok3 := evalBody()
			guard = "true"
			if !ok3 {
				return Val{Bad: true}
			}
			forms = append(forms, fmt.Sprintf("(%s ((%s %s)) (let ((%s %s)) %s))", qn, q.k, m.smtSort(SI), bv, idxTerm, body))
			if env.pol == 0 {
				break // mixed positions: one form
			}
		}
		q.apply = -1
		// universally quantified facts the solver may have to instantiate get every trigger form:
		// "all" as a hypothesis (conjoined), "any" as a goal (disjoined: after negation all forms are available).
		switch {
		case env.pol < 0 && fname == "all":
			return Val{T: boolT, L: []string{and(forms...)}}
		case env.pol > 0 && fname == "any":
			return Val{T: boolT, L: []string{or(append(forms, plain)...)}}
		case env.pol != 0:
			return Val{T: boolT, L: []string{plain}} // will be skolemised
		}
		return Val{T: boolT, L: []string{forms[0]}}
	case "forall2":
		// forall2(a, TA, b, TB, trig(term, P)): one quantifier over two variables with an explicit trigger
		if len(n.Args) != 5 {
			return e.bad("forall2(a, TA, b, TB, body)", n)
		}
		ida, ok1 := n.Args[0].(*ast.Ident)
		idb, ok2 := n.Args[2].(*ast.Ident)
		ta := e.resolveType(env.pkg, exprString(n.Args[1]))
		tb := e.resolveType(env.pkg, exprString(n.Args[3]))
		if !ok1 || !ok2 || ta == nil || tb == nil {
			return e.bad("forall2: bad binder", n)
		}
		la, oka := m.leafSorts(ta)
		lb, okb := m.leafSorts(tb)
		if !oka || !okb || len(la) != 1 || len(lb) != 1 {
			return e.bad("forall2 over non-scalars", n)
		}
		e.n++
		bva, bvb := fmt.Sprintf("%s!q%d", ida.Name, e.n), fmt.Sprintf("%s!q%db", idb.Name, e.n)
		va, vb := Val{T: ta, L: []string{bva}}, Val{T: tb, L: []string{bvb}}
		inner := env.with(ida.Name, va).with(idb.Name, vb)
		body2 := n.Args[4]
		pattern := ""
		if tc, ok := body2.(*ast.CallExpr); ok && callNameOf(tc) == "trig" && len(tc.Args) == 2 {
			tv := e.evalExpr(tc.Args[0], inner)
			if tv.Bad || len(tv.L) != 1 {
				return e.bad("trig(term, P): bad trigger term", n)
			}
			pattern = tv.L[0]
			body2 = tc.Args[1]
		}
		p2 := e.evalExpr(body2, inner)
		if p2.Bad || len(p2.L) != 1 {
			return Val{Bad: true}
		}
		tf2 := and(e.typeFacts(va, env.st), e.typeFacts(vb, env.st))
		if pattern != "" {
			return Val{T: boolT, L: []string{fmt.Sprintf("(forall ((%s %s) (%s %s)) (! %s :pattern (%s)))", bva, m.smtSort(la[0]), bvb, m.smtSort(lb[0]), implies(tf2, p2.L[0]), pattern)}}
		}
		return Val{T: boolT, L: []string{fmt.Sprintf("(forall ((%s %s) (%s %s)) %s)", bva, m.smtSort(la[0]), bvb, m.smtSort(lb[0]), implies(tf2, p2.L[0]))}}
	case "forall", "exists":
		id, ok := n.Args[0].(*ast.Ident)
		if !ok || len(n.Args) < 2 {
			return e.bad("forall(i, P)", n)
		}
		var t types.Type = types.Typ[types.Int]
		body := n.Args[1]
		if len(n.Args) == 3 {
			// forall(i, T, P)
			t = e.resolveType(env.pkg, exprString(n.Args[1]))
			if t == nil {
				return e.bad("bad quantifier type", n)
			}
			body = n.Args[2]
		}
		ls, ok2 := m.leafSorts(t)
		if !ok2 || len(ls) != 1 {
			return e.bad("quantifier over non-scalar", n)
		}
		e.n++
		bv := fmt.Sprintf("%s!q%d", id.Name, e.n)
		v := Val{T: t, L: []string{bv}}
		inner := env.with(id.Name, v)
		// forall(k, trig(term, P)): the quantifier is instantiated only where `term` matches (needed for defining
		// equations of recursive spec functions, which otherwise feed their own trigger)
		pattern := ""
		if tc, ok := body.(*ast.CallExpr); ok && callNameOf(tc) == "trig" && len(tc.Args) == 2 {
			tv := e.evalExpr(tc.Args[0], inner)
			if tv.Bad || len(tv.L) != 1 {
				return e.bad("trig(term, P): bad trigger term", n)
			}
			pattern = tv.L[0]
			body = tc.Args[1]
		}
		p := e.evalExpr(body, inner)
		if p.Bad {
			return p
		}
		tf := e.typeFacts(v, env.st)
		if fname == "forall" && pattern != "" {
			return Val{T: boolT, L: []string{fmt.Sprintf("(forall ((%s %s)) (! %s :pattern (%s)))", bv, m.smtSort(ls[0]), implies(tf, p.L[0]), pattern)}}
		}
		if fname == "forall" {
			return Val{T: boolT, L: []string{fmt.Sprintf("(forall ((%s %s)) %s)", bv, m.smtSort(ls[0]), implies(tf, p.L[0]))}}
		}
		return Val{T: boolT, L: []string{fmt.Sprintf("(exists ((%s %s)) %s)", bv, m.smtSort(ls[0]), and(tf, p.L[0]))}}
	case "bstr":
		// bstr(b): the text written so far to the strings.Builder b points to (ghost: the Str cell at b's address)
		a := e.evalExpr(n.Args[0], env)
		if a.Bad || len(a.L) != 2 {
			return e.bad("bstr(pointer to strings.Builder)", n)
		}
		e.needStr()
		return Val{T: types.Typ[types.String], L: []string{e.sel2(e.heap(env.st, SStr), a.L[0], a.L[1])}}
	case "scat":
		a, b := e.evalExpr(n.Args[0], env), e.evalExpr(n.Args[1], env)
		if a.Bad || b.Bad {
			return Val{Bad: true}
		}
		e.needScat()
		return Val{T: types.Typ[types.String], L: []string{"(scat " + a.L[0] + " " + b.L[0] + ")"}}
	case "ssub":
		a, i, j := e.evalExpr(n.Args[0], env), e.evalExpr(n.Args[1], env), e.evalExpr(n.Args[2], env)
		if a.Bad || i.Bad || j.Bad {
			return Val{Bad: true}
		}
		e.needSsub()
		return Val{T: types.Typ[types.String], L: []string{"(ssub " + a.L[0] + " " + e.coerceInt(i, SI) + " " + e.coerceInt(j, SI) + ")"}}
	case "bytestr":
		a := e.evalExpr(n.Args[0], env)
		if a.Bad {
			return a
		}
		e.needBytestr()
		return Val{T: types.Typ[types.String], L: []string{"(bytestr " + e.coerceInt(a, SI) + ")"}}
	case "runestr":
		a := e.evalExpr(n.Args[0], env)
		if a.Bad {
			return a
		}
		e.needUTF8()
		return Val{T: types.Typ[types.String], L: []string{"(runestr " + e.coerceInt(a, SI) + ")"}}
	case "utf8r", "utf8w":
		a, k := e.evalExpr(n.Args[0], env), e.evalExpr(n.Args[1], env)
		if a.Bad || k.Bad {
			return Val{Bad: true}
		}
		e.needUTF8()
		t := types.Typ[types.Int]
		if fname == "utf8r" {
			t = types.Typ[types.Int32]
		}
		return Val{T: t, L: []string{"(" + fname + " " + a.L[0] + " " + e.coerceInt(k, SI) + ")"}}
	case "utf8valid":
		a, k := e.evalExpr(n.Args[0], env), e.evalExpr(n.Args[1], env)
		if a.Bad || k.Bad {
			return Val{Bad: true}
		}
		e.needUTF8()
		return Val{T: boolT, L: []string{"(utf8valid " + a.L[0] + " " + e.coerceInt(k, SI) + ")"}}
	case "iterpos":
		// iterpos(): in a loop invariant of a range-over-string loop, the byte position the next iteration decodes at
		if env.loop == nil {
			return e.bad("iterpos() outside a loop invariant", n)
		}
		for _, ins := range env.loop.head.Instrs {
			if nx, ok := ins.(*ssa.Next); ok && nx.IsString {
				if it, ok := e.vals[nx.Iter]; ok && !it.Bad && len(it.L) == 1 {
					return Val{T: types.Typ[types.Int], L: []string{e.sel2(e.heap(env.st, SIter), it.L[0], e.M.ilit(0))}}
				}
			}
		}
		return e.bad("iterpos(): the loop is not a range over a string", n)
	case "fresh":
		a := e.evalExpr(n.Args[0], env)
		if a.Bad {
			return a
		}
		return Val{T: boolT, L: []string{m.ile(env.allocPre, a.L[0])}}
	case "sameobj":
		a, b := e.evalExpr(n.Args[0], env), e.evalExpr(n.Args[1], env)
		if a.Bad || b.Bad {
			return Val{Bad: true}
		}
		return Val{T: boolT, L: []string{eq(a.L[0], b.L[0])}}
	case "objof":
		a := e.evalExpr(n.Args[0], env)
		if a.Bad {
			return a
		}
		return Val{T: types.Typ[types.Int], L: []string{a.L[0]}}
	case "dyntype":
		// dyntype(x, "T") : dynamic type of interface x is T (a type expression string)
		a := e.evalExpr(n.Args[0], env)
		lit, ok := n.Args[1].(*ast.BasicLit)
		if a.Bad || !ok {
			return e.bad("dyntype(x, \"T\")", n)
		}
		ts, _ := strconv.Unquote(lit.Value)
		t := e.resolveType(env.pkg, ts)
		if t == nil {
			return e.bad("dyntype: unknown type", n)
		}
		return Val{T: boolT, L: []string{eq(a.L[0], m.ilit(int64(e.typeID(t))))}}
	}
	// conversions to integer types
	if t := basicTypeByName(fname); t != nil && len(n.Args) == 1 {
		a := e.evalExpr(n.Args[0], env)
		if a.Bad {
			return a
		}
		if a.Const != nil && a.T == nil {
			return Val{T: t, L: []string{m.lit(m.intSort(t), a.Const)}}
		}
		fb, ok := a.T.Underlying().(*types.Basic)
		if !ok || fb.Info()&types.IsInteger == 0 {
			return e.bad("conversion of non-integer", n)
		}
		return Val{T: t, L: []string{e.intConv(a.L[0], fb, t.Underlying().(*types.Basic), t)}}
	}
	// named-type conversions T(x) for integer-based named types
	if !strings.Contains(fname, ".") || true {
		if sf, ok := e.CS.Specs[fname]; ok {
			return e.evalSpec(sf, n, env)
		}
		// a call of a pure function of the package under contract: f(args)
		if id, ok := n.Fun.(*ast.Ident); ok && env.pkg != nil {
			if fn, ok := env.pkg.Pkg.Scope().Lookup(id.Name).(*types.Func); ok {
				key := env.pkg.Pkg.Path() + "." + id.Name
				sig := fn.Type().(*types.Signature)
				if ct := e.contractFor(key); ct != nil && ct.Pure && sig.Results().Len() == 1 && sig.Recv() == nil {
					var args []Val
					for _, a := range n.Args {
						v := e.evalExpr(a, env)
						if v.Bad {
							return Val{Bad: true}
						}
						args = append(args, v)
					}
					if v, ok := e.pureUF(key, sig.Results().At(0).Type(), args, env.st); ok {
						return v
					}
				}
			}
		}
		if t := e.resolveType(env.pkg, fname); t != nil && len(n.Args) == 1 {
			a := e.evalExpr(n.Args[0], env)
			if a.Bad {
				return a
			}
			if tb, ok := t.Underlying().(*types.Basic); ok && tb.Info()&types.IsInteger != 0 {
				if a.Const != nil && a.T == nil {
					return Val{T: t, L: []string{m.lit(m.intSort(t), a.Const)}}
				}
				if fb, ok := a.T.Underlying().(*types.Basic); ok && fb.Info()&types.IsInteger != 0 {
					return Val{T: t, L: []string{e.intConv(a.L[0], fb, tb, t)}}
				}
			}
			a.T = t
			return a
		}
	}
	// a call of a pure method of the program: x.M(args) where the method (or the interface method) has a pure contract
	if sel, ok := n.Fun.(*ast.SelectorExpr); ok {
		if v, ok := e.evalPureMethodCall(sel, n, env); ok {
			return v
		}
	}
	return e.bad("unknown function in contract", n)
}

// evalPureMethodCall evaluates recv.M(args) in a contract expression as the same uninterpreted function that a call
// of the pure method yields in the code (see pureUF), in the state of the environment.
func (e *Enc) evalPureMethodCall(sel *ast.SelectorExpr, n *ast.CallExpr, env *Env) (Val, bool) {
	recv := e.evalExpr(sel.X, env)
	if recv.Bad || recv.T == nil {
		return Val{}, false
	}
	t := types.Unalias(recv.T)
	var key string
	var sig *types.Signature
	if nt, ok := t.(*types.Named); ok {
		if it, ok := nt.Underlying().(*types.Interface); ok {
			for i := 0; i < it.NumMethods(); i++ {
				if it.Method(i).Name() == sel.Sel.Name {
					sig = it.Method(i).Type().(*types.Signature)
				}
			}
			if sig == nil {
				return Val{}, false
			}
			pkg := ""
			if nt.Obj().Pkg() != nil {
				pkg = nt.Obj().Pkg().Path() + "."
			}
			key = pkg + nt.Obj().Name() + "." + sel.Sel.Name
		}
	}
	if key == "" {
		obj, _, _ := types.LookupFieldOrMethod(t, true, env.pkg.Pkg, sel.Sel.Name)
		fn, ok := obj.(*types.Func)
		if !ok {
			return Val{}, false
		}
		sig = fn.Type().(*types.Signature)
		rt := sig.Recv().Type()
		if p, ok := rt.(*types.Pointer); ok {
			rt = p.Elem()
		}
		nt, ok := rt.(*types.Named)
		if !ok {
			return Val{}, false
		}
		pkg := ""
		if nt.Obj().Pkg() != nil {
			pkg = nt.Obj().Pkg().Path() + "."
		}
		key = pkg + nt.Obj().Name() + "." + sel.Sel.Name
		// receiver adjustment: the method takes a pointer and the expression is a value, or the reverse: not supported
		_, recvIsPtr := sig.Recv().Type().(*types.Pointer)
		_, valIsPtr := t.Underlying().(*types.Pointer)
		if recvIsPtr != valIsPtr {
			return Val{}, false
		}
	}
	ct := e.contractFor(key)
	if ct == nil || !ct.Pure || sig.Results().Len() != 1 {
		return Val{}, false
	}
	args := []Val{recv}
	for _, a := range n.Args {
		v := e.evalExpr(a, env)
		if v.Bad {
			return Val{}, false
		}
		args = append(args, v)
	}
	v, ok := e.pureUF(key, sig.Results().At(0).Type(), args, env.st)
	return v, ok
}

func basicTypeByName(n string) types.Type {
	switch n {
	case "int":
		return types.Typ[types.Int]
	case "int8":
		return types.Typ[types.Int8]
	case "int16":
		return types.Typ[types.Int16]
	case "int32", "rune":
		return types.Typ[types.Int32]
	case "int64":
		return types.Typ[types.Int64]
	case "uint":
		return types.Typ[types.Uint]
	case "uint8", "byte":
		return types.Typ[types.Uint8]
	case "uint16":
		return types.Typ[types.Uint16]
	case "uint32":
		return types.Typ[types.Uint32]
	case "uint64":
		return types.Typ[types.Uint64]
	case "uintptr":
		return types.Typ[types.Uintptr]
	}
	return nil
}

// evalSpec expands a spec function call inline (or applies an uninterpreted function).
func (e *Enc) evalSpec(sf *SpecFn, n *ast.CallExpr, env *Env) Val {
	if len(n.Args) != len(sf.Params) {
		return e.bad("wrong number of arguments to spec "+sf.Name, n)
	}
	if env.depth > 12 {
		return e.bad("spec recursion too deep (use uninterpreted spec + axioms)", n)
	}
	vars := map[string]Val{}
	var argLeaves []string
	var argSorts []string
	for i, p := range sf.Params {
		a := e.evalExpr(n.Args[i], env)
		if a.Bad {
			return a
		}
		t := e.resolveType(env.pkg, p.Type)
		if t == nil {
			return e.bad("spec "+sf.Name+": unknown param type "+p.Type, n)
		}
		if a.Const != nil && a.T == nil {
			a = Val{T: t, L: []string{e.M.lit(e.valSort(Val{T: t}), a.Const)}}
		} else if bt, ok := a.T.(*types.Basic); ok && bt.Kind() == types.UntypedNil {
			a = e.zeroVal(t)
		}
		a.T = t
		vars[p.Name] = a
		ls, _ := e.M.leafSorts(t)
		for j, l := range a.L {
			argLeaves = append(argLeaves, l)
			if j < len(ls) {
				argSorts = append(argSorts, e.M.smtSort(ls[j]))
			}
		}
	}
	if sf.Uninterp {
		rt := e.resolveType(env.pkg, sf.Result)
		if rt == nil {
			return e.bad("spec "+sf.Name+": unknown result type", n)
		}
		rls, ok := e.M.leafSorts(rt)
		if !ok {
			return e.bad("spec "+sf.Name+": result not representable", n)
		}
		out := Val{T: rt}
		for j, rs := range rls {
			fn := fmt.Sprintf("spec_%s_%d", sf.Name, j)
			e.prelude("spec:"+fn, fmt.Sprintf("(declare-fun %s (%s) %s)", fn, strings.Join(argSorts, " "), e.M.smtSort(rs)))
			if len(argLeaves) == 0 {
				out.L = append(out.L, fn)
			} else {
				out.L = append(out.L, "("+fn+" "+strings.Join(argLeaves, " ")+")")
			}
		}
		return out
	}
	inner := *env
	inner.vars = vars
	// bound quantifier variables of the caller remain visible only through args; spec bodies are closed
	inner.loop = nil
	inner.depth = env.depth + 1
	v := e.evalExpr(sf.Body, &inner)
	if v.Bad {
		return v
	}
	if v.T == nil && v.Const != nil {
		rt := e.resolveType(env.pkg, sf.Result)
		if rt != nil {
			return Val{T: rt, L: []string{e.M.lit(e.valSort(Val{T: rt}), v.Const)}}
		}
	}
	if rt := e.resolveType(env.pkg, sf.Result); rt != nil && v.T != nil {
		v.T = rt
	}
	return v
}

// evalModTarget resolves a modifies clause to (object id term, type of modified memory).
func callNameOf(c *ast.CallExpr) string {
	if id, ok := c.Fun.(*ast.Ident); ok {
		return id.Name
	}
	return ""
}

// sliceCells is a pseudo type standing for cap(x) consecutive elements (a modifies range whose size is symbolic).
type sliceCells struct {
	elem types.Type
	n    string
}

func (s *sliceCells) Underlying() types.Type { return s }
func (s *sliceCells) String() string         { return "cells of " + s.elem.String() }

// modRange: the cell range [lo, hi) of a modifies target returned by evalModField.
func (e *Enc) modRange(off string, ft types.Type) (lo, hi string) {
	if sc, ok := ft.(*sliceCells); ok {
		return off, e.M.iadd(off, e.M.imul(sc.n, e.M.ilit(slots(sc.elem))))
	}
	return off, e.M.iadd(off, e.M.ilit(slots(ft)))
}

// evalModField: a modifies target of the form x.f where x is a pointer to a struct: the object, the offset of the
// field inside it and the field's type. Field targets are havocked and checked at field granularity.
func (e *Enc) evalModField(c Clause, env *Env) (obj, off string, ft types.Type, ok bool) {
	if call, isCall := c.Expr.(*ast.CallExpr); isCall && callNameOf(call) == "bstr" && len(call.Args) == 1 {
		// the ghost text of a strings.Builder: the Str cell at its address
		a := e.evalExpr(call.Args[0], env)
		if a.Bad || len(a.L) != 2 {
			return "", "", nil, false
		}
		return a.L[0], a.L[1], types.Typ[types.String], true
	}
	if ix, isIx := c.Expr.(*ast.IndexExpr); isIx {
		// x[*] for a slice x: the cells of its backing array from its first element up to its capacity
		a := e.evalExpr(ix.X, env)
		if a.Bad || a.T == nil || len(a.L) != 4 {
			return "", "", nil, false
		}
		sl, isSlice := a.T.Underlying().(*types.Slice)
		if !isSlice {
			return "", "", nil, false
		}
		return a.L[0], a.L[1], &sliceCells{elem: sl.Elem(), n: a.L[3]}, true
	}
	n, isSel := c.Expr.(*ast.SelectorExpr)
	if !isSel {
		return "", "", nil, false
	}
	a := e.evalExpr(n.X, env)
	if a.Bad || a.T == nil || len(a.L) != 2 {
		return "", "", nil, false
	}
	if _, isPtr := a.T.Underlying().(*types.Pointer); !isPtr {
		return "", "", nil, false
	}
	t := derefType(a.T)
	if t == nil {
		return "", "", nil, false
	}
	st, isStruct := t.Underlying().(*types.Struct)
	if !isStruct {
		return "", "", nil, false
	}
	for i := 0; i < st.NumFields(); i++ {
		if st.Field(i).Name() == n.Sel.Name {
			return a.L[0], e.M.iadd(a.L[1], e.M.ilit(fieldOffset(st, i))), st.Field(i).Type(), true
		}
	}
	return "", "", nil, false
}

func (e *Enc) evalModTarget(c Clause, env *Env) (string, types.Type) {
	switch n := c.Expr.(type) {
	case *ast.Ident:
		if gt, ok := e.CS.Ghosts[n.Name]; ok {
			t := e.resolveType(env.pkg, gt)
			if t == nil {
				t = e.resolveType(e.Pkg, gt)
			}
			if t != nil {
				return e.ghostObj(n.Name), t
			}
		}
	case *ast.IndexExpr: // x[*]
		a := e.evalExpr(n.X, env)
		if a.Bad || a.T == nil {
			return "", nil
		}
		switch u := a.T.Underlying().(type) {
		case *types.Slice:
			return a.L[0], u.Elem()
		case *types.Pointer:
			return a.L[0], u.Elem()
		}
	case *ast.StarExpr:
		a := e.evalExpr(n.X, env)
		if a.Bad || a.T == nil {
			return "", nil
		}
		if t := derefType(a.T); t != nil {
			return a.L[0], t
		}
	case *ast.SelectorExpr:
		a := e.evalExpr(n.X, env)
		if a.Bad || a.T == nil {
			return "", nil
		}
		if t := derefType(a.T); t != nil {
			// a field of *p: havoc at object granularity but only sorts of that field
			if st, ok := t.Underlying().(*types.Struct); ok {
				for i := 0; i < st.NumFields(); i++ {
					if st.Field(i).Name() == n.Sel.Name {
						return a.L[0], st.Field(i).Type()
					}
				}
			}
		}
	}
	return "", nil
}
