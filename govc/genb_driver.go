package main

import (
	"fmt"
	"os"
	"sort"
	"strings"

	"golang.org/x/tools/go/ssa"
	"golang.org/x/tools/go/ssa/ssautil"
)

func ssautilAllFunctions(prog *ssa.Program) map[*ssa.Function]bool { return ssautil.AllFunctions(prog) }

func init() {
	propGens["C27"] = append(propGens["C27"], func(P *Program, CS *ContractSet, tier string) ([]*Obligation, []string, []string) {
		return genProv(P, "C27")
	})
	propGens["C29"] = append(propGens["C29"], func(P *Program, CS *ContractSet, tier string) ([]*Obligation, []string, []string) {
		return genProv(P, "C29")
	})
	propPkgs["C27"] = []string{pkgInterp, pkgExpand, pkgInternal}
	propPkgs["C29"] = []string{pkgInterp, pkgExpand, pkgInternal}
	propGens["C33"] = append(propGens["C33"], func(P *Program, CS *ContractSet, tier string) ([]*Obligation, []string, []string) {
		return genProv(P, "C33")
	})
	propPkgs["C33"] = []string{pkgInterp, pkgExpand, pkgInternal}
}

var provAssumptions = []string{
	"provenance judgement: interface-method and dynamic calls are assumed not to write through their arguments",
	"provenance judgement: a callee storing a borrowed container into a caller's local through a pointer is not tracked",
	"provenance judgement: maps and slices handed to user handlers (ExecHandler etc.) are outside the analysed packages",
	"append is treated as an in-place write of its first argument unless that argument is a full slice expression x[a:b:b]",
}

func genProv(P *Program, prop string) ([]*Obligation, []string, []string) {
	pa := newProvAnalysis(P)
	fns := pa.solve()
	var obls []*Obligation
	var names []string
	for n := range pa.sites {
		names = append(names, n)
	}
	sort.Strings(names)
	bad := tV
	what := "a container borrowed from a shell variable (Variable.List/Indexes/Map, Runner.Params)"
	if prop == "C29" {
		// variables may come from the user's Env (lookupVar falls through to it), so both kinds matter
		bad = tA | tV
		what = "memory of the caller's syntax tree or a container of a variable that may belong to the user's Env"
	}
	if prop == "C33" {
		bad = tA | tV
		what = "a list shared with another holder (SetIndexedElem/DeleteIndexedElem modify their arguments in place: the caller must own them)"
	}
	for _, n := range names {
		s := pa.sites[n]
		if prop == "C33" && !strings.Contains(s.what, "internal.SetIndexedElem") && !strings.Contains(s.what, "internal.DeleteIndexedElem") {
			continue
		}
		ok := s.target&bad == 0
		d := fmt.Sprintf("%s: target provenance {%s} must not include %s", s.what, s.target, what)
		o := &Obligation{Name: n, Func: shortFuncName(s.fn), Kind: "frame", Backend: "provenance", OK: ok, Detail: d, Descr: d, Pos: posStr(P, P.Prog.Fset, s.pos)}
		obls = append(obls, o)
	}
	if prop == "C27" {
		obls = append(obls, pa.extra...)
		if len(pa.extra) == 0 {
			obls = append(obls, structOb("interp.Runner.subshell#fresh@exists", "frame", false, "no freshness obligations generated for Runner.subshell", ""))
		}
	}
	if prop == "C29" {
		for _, o := range pa.extra {
			if strings.Contains(o.Name, "#funcscope-parent@") {
				obls = append(obls, o)
			}
		}
		seen := map[string]bool{}
		for _, s := range pa.envSites {
			if seen[s.name] {
				continue
			}
			seen[s.name] = true
			ok := s.target&tE == 0
			d := s.what + ": the user-supplied Env may only be read (Get/Each), stored as an overlay parent or copied"
			obls = append(obls, &Obligation{Name: s.name, Func: shortFuncName(s.fn), Kind: "frame", Backend: "provenance", OK: ok, Detail: d, Descr: d, Pos: posStr(P, P.Prog.Fset, s.pos)})
		}
	}
	var funcs []string
	for _, f := range fns {
		p := f.Pkg
		if p == nil && f.Parent() != nil {
			p = f.Parent().Pkg
		}
		if p != nil && pa.analysed[p.Pkg.Path()] {
			funcs = append(funcs, shortFuncName(f))
		}
	}
	sort.Strings(funcs)
	return obls, funcs, provAssumptions
}

// cmdProv: development aid listing failing provenance obligations.
func cmdProv(args []string) {
	P, err := load(pkgInterp, pkgExpand, pkgInternal)
	if err != nil {
		fmt.Fprintln(os.Stderr, err)
		os.Exit(2)
	}
	for _, prop := range []string{"C27", "C29", "C33"} {
		obls, funcs, _ := genProv(P, prop)
		bad := 0
		for _, o := range obls {
			if !o.OK {
				bad++
				fmt.Printf("%s FAIL %s [%s] %s\n", prop, o.Name, o.Pos, o.Detail)
			}
		}
		fmt.Printf("%s: %d obligations over %d functions, %d failing\n", prop, len(obls), len(funcs), bad)
	}
}
