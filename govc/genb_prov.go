package main

import (
	"fmt"
	"go/token"
	"go/types"
	"sort"
	"strings"

	"golang.org/x/tools/go/ssa"
)

// Generator B: ownership / frame obligations decided by a provenance judgement over go/ssa.
//
// Every value that can reach mutable memory (slice, map, pointer, interface, struct holding those) carries a set of
// provenance tags. An obligation is attached to every instruction that writes memory: the written object must not be
// borrowed from a shell variable (C27), from the caller's syntax tree (C29) or be the user's Env (C29).

type tagset uint32

const (
	tF  tagset = 1 << iota // allocated in this activation (or nil)
	tU                     // other memory (not subject to the frame conditions)
	tV                     // borrowed from an expand.Variable's List/Indexes/Map, Runner.Params or Runner.dirStack
	tA                     // reachable from the caller's syntax tree
	tE                     // the user-supplied Runner.Env value
	tP0                    // parameter 0 ... (summaries are expressed relative to parameters)
)

const maxParams = 12

func tP(j int) tagset {
	if j >= maxParams {
		return tU
	}
	return tP0 << uint(j)
}

const harmful = tV | tA | tE

func (t tagset) String() string {
	var s []string
	names := []string{"fresh", "other", "variable", "ast", "env"}
	for i, n := range names {
		if t&(1<<uint(i)) != 0 {
			s = append(s, n)
		}
	}
	for j := 0; j < maxParams; j++ {
		if t&tP(j) != 0 {
			s = append(s, fmt.Sprintf("param%d", j))
		}
	}
	if len(s) == 0 {
		return "none"
	}
	return strings.Join(s, "|")
}

type provSummary struct {
	writes []bool   // writes memory reachable from parameter j
	ret    []tagset // provenance of results, relative to parameters
	envMis []bool   // uses parameter j in a way forbidden for Env (Set / assertion to WriteEnviron)
	done   bool
	stores []bool // stores parameter j into longer-lived memory (not used for obligations; informational)
}

type writeSite struct {
	fn     *ssa.Function
	pos    token.Pos
	what   string
	target tagset
	name   string
}

type provAnalysis struct {
	P        *Program
	sums     map[*ssa.Function]*provSummary
	sites    map[string]*writeSite // by obligation name (latest iteration)
	analysed map[string]bool       // package paths whose functions get obligations
	changed  bool
	collect  bool
	occ      map[string]int
	envSites []*writeSite
	// closures: captured variables are summarised flow-insensitively in cells shared by parent and closures
	fvBinding map[*ssa.FreeVar]ssa.Value
	captured  map[*ssa.Alloc]bool
	cell      map[memKey]tagset
	// callbacks: provenance of the arguments dynamic callers pass to a closure / to a func-typed parameter
	cbArgs    map[*ssa.Function][]tagset
	cbKnown   map[*ssa.Function]bool
	yieldArgs map[*ssa.Function]map[int][]tagset
	runnerMut map[string]string      // Runner fields whose container is written in place somewhere -> example site
	extra     []*Obligation          // subshell freshness and overlay invariants
	phase     int                    // 1: optimistic discovery of closures whose callers are known; 2: final
	known     map[*ssa.Function]bool // closures with known dynamic callers (from phase 1)
	escaped   map[*ssa.Function]bool // closures that may also be called from places the analysis cannot see
}

const (
	pkgInterp   = "mvdan.cc/sh/v3/interp"
	pkgExpand   = "mvdan.cc/sh/v3/expand"
	pkgInternal = "mvdan.cc/sh/v3/internal"
	pkgPattern  = "mvdan.cc/sh/v3/pattern"
)

func isContainer(t types.Type) bool {
	return isContainerD(t, 0)
}

func isContainerD(t types.Type, d int) bool {
	if d > 4 {
		return false
	}
	switch u := t.Underlying().(type) {
	case *types.Slice, *types.Map, *types.Pointer, *types.Interface, *types.Chan, *types.Signature:
		return true
	case *types.Struct:
		for i := 0; i < u.NumFields(); i++ {
			if isContainerD(u.Field(i).Type(), d+1) {
				return true
			}
		}
	case *types.Array:
		return isContainerD(u.Elem(), d+1)
	case *types.Tuple:
		for i := 0; i < u.Len(); i++ {
			if isContainerD(u.At(i).Type(), d+1) {
				return true
			}
		}
	}
	return false
}

func namedOf(t types.Type) *types.Named {
	for {
		switch x := t.(type) {
		case *types.Pointer:
			t = x.Elem()
		case *types.Slice:
			t = x.Elem()
		case *types.Named:
			return x
		case *types.Alias:
			t = types.Unalias(x)
		default:
			return nil
		}
	}
}

func isVariableType(t types.Type) bool {
	n, ok := types.Unalias(t).(*types.Named)
	if !ok {
		return false
	}
	if n.Obj().Pkg() == nil {
		return false
	}
	if n.Obj().Pkg().Path() == pkgExpand && n.Obj().Name() == "Variable" {
		return true
	}
	if n.Obj().Pkg().Path() == pkgInterp && n.Obj().Name() == "namedVariable" {
		return true
	}
	return false
}

// astType: pointer/interface/slice types of syntax tree nodes.
func isASTType(t types.Type) bool {
	switch t.Underlying().(type) {
	case *types.Pointer, *types.Interface, *types.Slice:
	default:
		return false
	}
	n := namedOf(t)
	if n == nil || n.Obj().Pkg() == nil || n.Obj().Pkg().Path() != syntaxPkg {
		return false
	}
	switch n.Obj().Name() {
	case "Parser", "Printer", "Pos", "LangVariant", "ParseError", "LangError", "QuoteError", "ParserOption", "PrinterOption":
		return false
	}
	// only node types (struct or interface)
	switch n.Underlying().(type) {
	case *types.Struct, *types.Interface:
		return true
	}
	return false
}

func typeDefault(t types.Type) tagset {
	if isVariableType(t) {
		return tV
	}
	if isASTType(t) {
		return tA
	}
	return 0
}

func newProvAnalysis(P *Program) *provAnalysis {
	return &provAnalysis{P: P, sums: map[*ssa.Function]*provSummary{}, sites: map[string]*writeSite{},
		analysed: map[string]bool{pkgInterp: true, pkgExpand: true, pkgInternal: true}, occ: map[string]int{},
		fvBinding: map[*ssa.FreeVar]ssa.Value{}, captured: map[*ssa.Alloc]bool{}, cell: map[memKey]tagset{},
		runnerMut: map[string]string{},
		cbArgs:    map[*ssa.Function][]tagset{}, cbKnown: map[*ssa.Function]bool{}, yieldArgs: map[*ssa.Function]map[int][]tagset{}}
}

func (pa *provAnalysis) inScope(f *ssa.Function) bool {
	if f == nil || len(f.Blocks) == 0 {
		return false
	}
	p := f.Pkg
	if p == nil && f.Parent() != nil {
		p = f.Parent().Pkg
	}
	if p == nil {
		if o := f.Origin(); o != nil {
			p = o.Pkg
		}
	}
	if p == nil {
		return false
	}
	switch p.Pkg.Path() {
	case pkgInterp, pkgExpand, pkgInternal, syntaxPkg, pkgPattern:
		return true
	}
	return false
}

func (pa *provAnalysis) summary(f *ssa.Function) *provSummary {
	if s, ok := pa.sums[f]; ok {
		return s
	}
	n := len(f.Params)
	s := &provSummary{writes: make([]bool, n), envMis: make([]bool, n), stores: make([]bool, n)}
	if f.Signature.Results() != nil {
		s.ret = make([]tagset, f.Signature.Results().Len())
	}
	pa.sums[f] = s
	return s
}

// allFunctions lists the functions (incl. methods, anonymous, generic instances) of the in-scope packages.
func (pa *provAnalysis) allFunctions() []*ssa.Function {
	var out []*ssa.Function
	for f := range ssautilAllFunctions(pa.P.Prog) {
		if pa.inScope(f) {
			out = append(out, f)
		}
	}
	sort.Slice(out, func(i, j int) bool { return funcKey(out[i])+out[i].Name() < funcKey(out[j])+out[j].Name() })
	return out
}

type memKey struct {
	root ssa.Value // *ssa.Alloc
	path string
}

type provState map[memKey]tagset

func (s provState) clone() provState {
	n := provState{}
	for k, v := range s {
		n[k] = v
	}
	return n
}

func joinState(a, b provState) (provState, bool) {
	changed := false
	for k, v := range b {
		if a[k]|v != a[k] {
			a[k] |= v
			changed = true
		}
	}
	return a, changed
}

type funcProv struct {
	pa      *provAnalysis
	fn      *ssa.Function
	sum     *provSummary
	vals    map[ssa.Value]tagset
	tuple   map[ssa.Value][]tagset
	local   map[*ssa.Alloc]bool
	ordinal map[string]int
	emit    bool
}

// addrRoot resolves an address to (local alloc root, path) if it points into a local allocation.
func (fp *funcProv) addrRoot(v ssa.Value) (*ssa.Alloc, string, bool) {
	switch x := v.(type) {
	case *ssa.Alloc:
		return x, "", true
	case *ssa.FreeVar:
		if a := fp.pa.resolveFreeVar(x); a != nil {
			return a, "", true
		}
		return nil, "", false
	case *ssa.FieldAddr:
		r, p, ok := fp.addrRoot(x.X)
		if !ok {
			return nil, "", false
		}
		return r, p + fmt.Sprintf(".%d", x.Field), true
	case *ssa.IndexAddr:
		r, p, ok := fp.addrRoot(x.X)
		if !ok {
			return nil, "", false
		}
		// elements of a local array
		if _, isPtr := x.X.Type().Underlying().(*types.Pointer); isPtr {
			return r, p + "[]", true
		}
		return nil, "", false
	}
	return nil, "", false
}

func (fp *funcProv) tagOf(v ssa.Value) tagset {
	switch x := v.(type) {
	case *ssa.Const:
		if x.Value == nil && isContainer(x.Type()) {
			return tF
		}
		return 0
	case *ssa.Parameter:
		if !isContainer(x.Type()) {
			return 0
		}
		if fp.fn.Parent() != nil && (fp.pa.phase == 1 || fp.pa.known[fp.fn]) {
			// an anonymous function whose dynamic callers are known: its parameters carry what the callers pass
			// (starting from nothing, so that callbacks that pass their own parameter along reach a least fixpoint)
			var t tagset
			for j, p := range fp.fn.Params {
				if p == x && j < len(fp.pa.cbArgs[fp.fn]) {
					t = fp.pa.cbArgs[fp.fn][j]
				}
			}
			if fp.pa.escaped[fp.fn] {
				t |= typeDefault(x.Type())
				if t == 0 {
					t = tU
				}
			}
			return t
		}
		if d := typeDefault(x.Type()); d != 0 {
			return d
		}
		for j, p := range fp.fn.Params {
			if p == x {
				return tP(j)
			}
		}
		return tU
	case *ssa.FreeVar:
		if d := typeDefault(derefOrSelf(x.Type())); d != 0 {
			return d | tU
		}
		return tU
	case *ssa.Global:
		return tU
	case *ssa.Function, *ssa.Builtin:
		return 0
	}
	if t, ok := fp.vals[v]; ok {
		return t
	}
	return 0
}

// runnerFieldOf: v is (a slice of) the value loaded from a field of *Runner in this function.
func runnerFieldOf(v ssa.Value, depth int) string {
	if depth > 4 {
		return ""
	}
	switch x := v.(type) {
	case *ssa.UnOp:
		if x.Op == token.MUL {
			if fa, ok := x.X.(*ssa.FieldAddr); ok {
				if n, ok := types.Unalias(derefType(fa.X.Type())).(*types.Named); ok && n.Obj().Name() == "Runner" && n.Obj().Pkg() != nil && n.Obj().Pkg().Path() == pkgInterp {
					return n.Underlying().(*types.Struct).Field(fa.Field).Name()
				}
			}
		}
	case *ssa.Slice:
		return runnerFieldOf(x.X, depth+1)
	case *ssa.Phi:
		for _, e := range x.Edges {
			if f := runnerFieldOf(e, depth+1); f != "" {
				return f
			}
		}
	}
	return ""
}

func (fp *funcProv) noteRunnerWrite(ins ssa.Instruction) {
	var base ssa.Value
	switch x := ins.(type) {
	case *ssa.Store:
		if ia, ok := x.Addr.(*ssa.IndexAddr); ok {
			base = ia.X
		}
	case *ssa.MapUpdate:
		base = x.Map
	case ssa.CallInstruction:
		if len(x.Common().Args) > 0 {
			base = x.Common().Args[0]
		}
	}
	if base == nil {
		return
	}
	if f := runnerFieldOf(base, 0); f != "" {
		if _, ok := fp.pa.runnerMut[f]; !ok {
			fp.pa.runnerMut[f] = shortFuncName(fp.fn) + ": " + fp.srcText(ins.Pos())
		}
	}
}

func (fp *funcProv) site(ins ssa.Instruction, what string, target tagset) {
	fp.noteRunnerWrite(ins)
	if target&harmful == 0 && !fp.emit {
		// still record parameter writes below
	}
	for j := range fp.fn.Params {
		if target&tP(j) != 0 && !fp.sum.writes[j] {
			fp.sum.writes[j] = true
			fp.pa.changed = true
		}
	}
	if !fp.emit {
		return
	}
	fname := shortFuncName(fp.fn)
	src := fp.srcText(ins.Pos())
	if src == "" {
		src = "?"
	}
	base := fmt.Sprintf("%s#write@%s", fname, src)
	fp.ordinal[base]++
	name := base
	if fp.ordinal[base] > 1 {
		name = fmt.Sprintf("%s~%d", base, fp.ordinal[base])
	}
	fp.pa.sites[name] = &writeSite{fn: fp.fn, pos: ins.Pos(), what: what, target: target, name: name}
}

func (fp *funcProv) envSite(ins ssa.Instruction, what string, bad bool) {
	if !fp.emit {
		return
	}
	fname := shortFuncName(fp.fn)
	src := fp.srcText(ins.Pos())
	base := fmt.Sprintf("%s#env-use@%s", fname, src)
	fp.ordinal[base]++
	name := base
	if fp.ordinal[base] > 1 {
		name = fmt.Sprintf("%s~%d", base, fp.ordinal[base])
	}
	t := tagset(0)
	if bad {
		t = tE
	}
	fp.pa.envSites = append(fp.pa.envSites, &writeSite{fn: fp.fn, pos: ins.Pos(), what: what, target: t, name: name})
}

func (fp *funcProv) srcText(pos token.Pos) string {
	if !pos.IsValid() {
		return ""
	}
	P := fp.pa.P
	p := P.Prog.Fset.Position(pos)
	src := fileSrcCached(p.Filename)
	if src == nil {
		return ""
	}
	// the source line, trimmed
	start := p.Offset
	for start > 0 && src[start-1] != '\n' {
		start--
	}
	end := p.Offset
	for end < len(src) && src[end] != '\n' {
		end++
	}
	line := strings.TrimSpace(string(src[start:end]))
	line = strings.Join(strings.Fields(line), "")
	if len(line) > 70 {
		line = line[:70]
	}
	return line
}

func fileSrcCached(name string) []byte {
	if b, ok := fileCache[name]; ok {
		return b
	}
	b, _ := readFile(name)
	fileCache[name] = b
	return b
}

// knownExternal models standard-library functions by name.
type extModel struct {
	fresh   bool // result is freshly allocated
	sameAs0 bool // result may alias argument 0
	writes0 bool // writes through argument 0
}

var extModels = map[string]extModel{
	"slices.Clone": {fresh: true}, "maps.Clone": {fresh: true}, "slices.Concat": {fresh: true}, "slices.Collect": {fresh: true},
	"slices.Sorted": {fresh: true}, "slices.AppendSeq": {sameAs0: true, writes0: true},
	"slices.Clip": {sameAs0: true}, "slices.Grow": {sameAs0: true},
	"slices.Insert": {sameAs0: true, writes0: true}, "slices.Delete": {sameAs0: true, writes0: true}, "slices.Replace": {sameAs0: true, writes0: true},
	"slices.Compact": {sameAs0: true, writes0: true}, "slices.DeleteFunc": {sameAs0: true, writes0: true},
	"slices.Reverse": {writes0: true}, "slices.Sort": {writes0: true}, "slices.SortFunc": {writes0: true}, "slices.SortStableFunc": {writes0: true},
	"sort.Strings": {writes0: true}, "sort.Slice": {writes0: true}, "sort.SliceStable": {writes0: true}, "sort.Sort": {writes0: true}, "sort.Stable": {writes0: true}, "sort.Ints": {writes0: true},
	"maps.Copy": {writes0: true}, "maps.DeleteFunc": {writes0: true}, "maps.Insert": {writes0: true},
	"strings.Fields": {fresh: true}, "strings.Split": {fresh: true}, "strings.SplitN": {fresh: true}, "strings.FieldsFunc": {fresh: true},
	"os.Environ": {fresh: true},
}

func (fp *funcProv) run() {
	emit := fp.emit
	fp.emit = false
	defer func() { fp.emit = emit }()
	fn := fp.fn
	in := map[int]provState{0: {}}
	// reverse postorder
	var order []*ssa.BasicBlock
	seen := map[int]bool{}
	var dfs func(b *ssa.BasicBlock)
	dfs = func(b *ssa.BasicBlock) {
		seen[b.Index] = true
		for _, s := range b.Succs {
			if !seen[s.Index] {
				dfs(s)
			}
		}
		order = append(order, b)
	}
	dfs(fn.Blocks[0])
	for i, j := 0, len(order)-1; i < j; i, j = i+1, j-1 {
		order[i], order[j] = order[j], order[i]
	}
	for iter := 0; iter < 12; iter++ {
		changed := false
		for _, b := range order {
			st, ok := in[b.Index]
			if !ok {
				continue
			}
			cur := st.clone()
			before := len(fp.vals)
			snapshot := map[ssa.Value]tagset{}
			for _, ins := range b.Instrs {
				if v, ok := ins.(ssa.Value); ok {
					snapshot[v] = fp.vals[v]
				}
			}
			fp.block(b, cur)
			for v, old := range snapshot {
				if fp.vals[v] != old {
					changed = true
				}
			}
			if len(fp.vals) != before {
				changed = true
			}
			for _, s := range b.Succs {
				if _, ok := in[s.Index]; !ok {
					in[s.Index] = cur.clone()
					changed = true
				} else {
					var c bool
					in[s.Index], c = joinState(in[s.Index], cur)
					if c {
						changed = true
					}
				}
			}
		}
		if !changed {
			break
		}
	}
	if emit {
		// one final sweep over the fixpoint that records the obligations
		fp.emit = true
		for _, b := range order {
			if st, ok := in[b.Index]; ok {
				fp.block(b, st.clone())
			}
		}
	}
}

func (fp *funcProv) setVal(v ssa.Value, t tagset) {
	if !isContainer(v.Type()) {
		if _, isTuple := v.Type().(*types.Tuple); !isTuple {
			t = 0
		}
	}
	fp.vals[v] |= t
}

func (fp *funcProv) loadNonLocal(addr ssa.Value, resT types.Type) tagset {
	if !isContainer(resT) {
		return 0
	}
	switch x := addr.(type) {
	case *ssa.FieldAddr:
		st := derefType(x.X.Type())
		var sname, spkg string
		if n, ok := types.Unalias(st).(*types.Named); ok && n.Obj().Pkg() != nil {
			sname, spkg = n.Obj().Name(), n.Obj().Pkg().Path()
		}
		fname := st.Underlying().(*types.Struct).Field(x.Field).Name()
		if spkg == pkgInterp && sname == "Runner" {
			switch fname {
			case "Params":
				return tV
			case "Env":
				return tE
			}
		}
		if isVariableType(st) || (spkg == pkgExpand && sname == "Variable") {
			switch fname {
			case "List", "Indexes", "Map":
				return tV
			}
		}
		if d := typeDefault(resT); d != 0 {
			return d
		}
		base := fp.tagOf(x.X)
		// memory reached through a borrowed pointer is borrowed the same way
		if base&tA != 0 && spkg == syntaxPkg {
			return tA
		}
		return tU | (base & (tP0 * ((1 << maxParams) - 1)))
	case *ssa.IndexAddr:
		if d := typeDefault(resT); d != 0 {
			return d
		}
		base := fp.tagOf(x.X)
		return tU | (base & (tA | tP0*((1<<maxParams)-1)))
	}
	if d := typeDefault(resT); d != 0 {
		return d
	}
	base := fp.tagOf(addr)
	return tU | (base & (tA | tV | tP0*((1<<maxParams)-1)))
}

func (fp *funcProv) block(b *ssa.BasicBlock, st provState) {
	for _, ins := range b.Instrs {
		switch x := ins.(type) {
		case *ssa.Alloc:
			fp.vals[x] |= tF
			// a fresh execution of the alloc starts with zero values
			for k := range st {
				if k.root == ssa.Value(x) {
					delete(st, k)
				}
			}
		case *ssa.Phi:
			var t tagset
			for _, e := range x.Edges {
				t |= fp.tagOf(e)
			}
			fp.setVal(x, t)
		case *ssa.Store:
			val := fp.tagOf(x.Val)
			if root, path, ok := fp.addrRoot(x.Addr); ok && fp.pa.captured[root] {
				p := path
				if p == "" {
					p = "*"
				}
				fp.pa.cellStore(memKey{root, p}, val)
				continue
			}
			if fa, isFA := x.Addr.(*ssa.FieldAddr); isFA && fp.emit {
				if stt, ok := derefType(fa.X.Type()).Underlying().(*types.Struct); ok && stt.Field(fa.Field).Name() == "funcScope" {
					fp.funcScopeObligation(x, fa, st)
				}
			}
			if root, path, ok := fp.addrRoot(x.Addr); ok && fp.local[root] {
				if path == "" {
					// whole-object store: every field gets the value's provenance
					for k := range st {
						if k.root == ssa.Value(root) {
							delete(st, k)
						}
					}
					st[memKey{root, "*"}] = val
				} else if strings.HasSuffix(path, "[]") {
					st[memKey{root, path}] |= val
				} else {
					st[memKey{root, path}] = val
					// stale "*" entry no longer describes this field: handled at load (specific path wins)
				}
				continue
			}
			// non-local write: obligation
			var target tagset
			switch a := x.Addr.(type) {
			case *ssa.IndexAddr:
				target = fp.tagOf(a.X)
			case *ssa.FieldAddr:
				target = fp.tagOf(a.X)
			default:
				target = fp.tagOf(x.Addr)
			}
			fp.site(x, "store", target)
			// storing the Env into something other than overlayEnviron.parent / Runner.Env copies
			if val&tE != 0 {
				ok := false
				if fa, isFA := x.Addr.(*ssa.FieldAddr); isFA {
					stt := derefType(fa.X.Type()).Underlying().(*types.Struct)
					fn := stt.Field(fa.Field).Name()
					if fn == "parent" || fn == "Env" {
						ok = true
					}
				}
				if n, isN := types.Unalias(x.Val.Type()).(*types.Named); isN && n.Obj().Name() == "Runner" {
					ok = true // copying a whole Runner value (Reset, subshell) copies the Env reference
				}
				fp.envSite(x, "Env value stored", !ok)
			}
		case *ssa.UnOp:
			if x.Op != token.MUL {
				fp.setVal(x, fp.tagOf(x.X))
				continue
			}
			if root, path, ok := fp.addrRoot(x.X); ok && fp.pa.captured[root] {
				fp.setVal(x, fp.pa.cellLoad(root, path))
				continue
			}
			if root, path, ok := fp.addrRoot(x.X); ok && fp.local[root] {
				var t tagset
				if path == "" {
					t = tF
					for k, v := range st {
						if k.root == ssa.Value(root) {
							t |= v
						}
					}
					if t&^tF != 0 && t != tF {
						// keep fresh only if nothing else was stored
					}
				} else if v, ok := st[memKey{root, path}]; ok {
					t = v
				} else {
					// a field of a whole-stored struct, or of a stored parent path
					found := false
					for p := path; p != ""; {
						i := strings.LastIndexAny(p, ".[")
						if i < 0 {
							break
						}
						p = p[:i]
						if v, ok := st[memKey{root, p}]; ok {
							t, found = v, true
							break
						}
					}
					if !found {
						if v, ok := st[memKey{root, "*"}]; ok {
							t = v
						} else {
							t = tF // zero value
						}
					}
					// refine by type for values copied out of borrowed structs
					if t&(tA|tV) != 0 {
						// a field of a copied AST/Variable struct: containers stay borrowed, scalars vanish (setVal)
					}
				}
				fp.setVal(x, t)
				continue
			}
			fp.setVal(x, fp.loadNonLocal(x.X, x.Type()))
		case *ssa.FieldAddr:
			fp.setVal(x, fp.tagOf(x.X))
		case *ssa.IndexAddr:
			fp.setVal(x, fp.tagOf(x.X))
		case *ssa.Field:
			t := fp.tagOf(x.X)
			if d := typeDefault(x.Type()); d != 0 {
				t |= d
			}
			fp.setVal(x, t)
		case *ssa.Index:
			fp.setVal(x, fp.tagOf(x.X)|typeDefault(x.Type()))
		case *ssa.Slice:
			t := fp.tagOf(x.X)
			// slicing a local array: the result points into local memory
			if root, _, ok := fp.addrRoot(x.X); ok && fp.local[root] {
				t = tF
				fp.escape(root, st)
			}
			fp.setVal(x, t)
		case *ssa.ChangeType:
			fp.setVal(x, fp.tagOf(x.X))
		case *ssa.ChangeInterface:
			fp.setVal(x, fp.tagOf(x.X))
		case *ssa.MakeInterface:
			fp.setVal(x, fp.tagOf(x.X))
		case *ssa.Convert:
			if _, ok := x.Type().Underlying().(*types.Slice); ok {
				fp.setVal(x, tF)
			} else {
				fp.setVal(x, fp.tagOf(x.X))
			}
		case *ssa.MultiConvert:
			fp.setVal(x, fp.tagOf(x.X))
		case *ssa.MakeSlice, *ssa.MakeMap, *ssa.MakeChan:
			fp.vals[x.(ssa.Value)] |= tF
		case *ssa.MakeClosure:
			fp.vals[x] |= tU
			for _, b := range x.Bindings {
				if a, ok := b.(*ssa.Alloc); ok {
					fp.escape(a, st)
				}
			}
		case *ssa.TypeAssert:
			t := fp.tagOf(x.X)
			if t&tE != 0 {
				bad := false
				if it, ok := x.AssertedType.Underlying().(*types.Interface); ok {
					for i := 0; i < it.NumMethods(); i++ {
						if it.Method(i).Name() == "Set" {
							bad = true
						}
					}
				} else {
					bad = true // assertion to a concrete type exposes its mutators
				}
				fp.envSite(x, "Env value type-asserted to "+types.TypeString(x.AssertedType, nil), bad)
			}
			for j, p := range fp.fn.Params {
				_ = p
				if t&tP(j) != 0 {
					if it, ok := x.AssertedType.Underlying().(*types.Interface); ok {
						for i := 0; i < it.NumMethods(); i++ {
							if it.Method(i).Name() == "Set" && !fp.sum.envMis[j] {
								fp.sum.envMis[j] = true
								fp.pa.changed = true
							}
						}
					}
				}
			}
			fp.setVal(x, t|typeDefault(x.AssertedType))
		case *ssa.Extract:
			if ts, ok := fp.tuple[x.Tuple]; ok && x.Index < len(ts) {
				fp.setVal(x, ts[x.Index])
			} else {
				fp.setVal(x, fp.tagOf(x.Tuple)|typeDefault(x.Type()))
			}
		case *ssa.Lookup:
			t := fp.tagOf(x.X)
			var et types.Type
			if m, ok := x.X.Type().Underlying().(*types.Map); ok {
				et = m.Elem()
			}
			r := tagset(0)
			if et != nil {
				r = typeDefault(et)
				if r == 0 && isContainer(et) {
					r = tU | (t & (tA | tV))
				}
			}
			if x.CommaOk {
				fp.tuple[x] = []tagset{r, 0}
				fp.vals[x] |= r
			} else {
				fp.setVal(x, r)
			}
		case *ssa.Range:
			fp.vals[x] |= fp.tagOf(x.X)
		case *ssa.Next:
			t := fp.tagOf(x.Iter)
			tup := x.Type().(*types.Tuple)
			ts := make([]tagset, tup.Len())
			for i := 1; i < tup.Len(); i++ {
				et := tup.At(i).Type()
				if isContainer(et) {
					ts[i] = typeDefault(et)
					if ts[i] == 0 {
						ts[i] = tU | (t & (tA | tV))
					}
				}
			}
			fp.tuple[x] = ts
		case *ssa.MapUpdate:
			if root, _, ok := fp.addrRoot(x.Map); ok && fp.local[root] {
				continue
			}
			fp.site(x, "map update", fp.tagOf(x.Map))
		case *ssa.Return:
			if fp.emit && shortFuncName(fp.fn) == "interp.Runner.subshell" && len(x.Results) == 1 {
				fp.subshellObligations(x, st)
			}
			for i, r := range x.Results {
				if i < len(fp.sum.ret) {
					t := fp.tagOf(r)
					if !isContainer(r.Type()) {
						t = 0
					}
					if fp.sum.ret[i]|t != fp.sum.ret[i] {
						fp.sum.ret[i] |= t
						fp.pa.changed = true
					}
				}
			}
		case ssa.CallInstruction:
			fp.call(x, st)
		case *ssa.Select:
			fp.vals[x] |= tU
		}
	}
}

// escape: the address of a local allocation leaves the analysis' sight; its contents become unknown-but-harmless
// unless already borrowed.
func (fp *funcProv) escape(a *ssa.Alloc, st provState) {
	// keep tracking: callee writes through the pointer are not modelled (documented imprecision)
}

func (fp *funcProv) call(c ssa.CallInstruction, st provState) {
	com := c.Common()
	var resV ssa.Value
	if v, ok := c.(ssa.Value); ok {
		resV = v
	}
	setRes := func(ts []tagset) {
		if resV == nil {
			return
		}
		if tup, ok := resV.Type().(*types.Tuple); ok {
			if tup.Len() == 0 {
				return
			}
			out := make([]tagset, tup.Len())
			var all tagset
			for i := 0; i < tup.Len(); i++ {
				if i < len(ts) {
					out[i] = ts[i]
				}
				if !isContainer(tup.At(i).Type()) {
					out[i] = 0
				}
				if d := typeDefault(tup.At(i).Type()); d != 0 && out[i]&^tF == 0 && out[i] != tF {
					out[i] |= d
				}
				all |= out[i]
			}
			old := fp.tuple[resV]
			if old != nil {
				for i := range out {
					if i < len(old) {
						out[i] |= old[i]
					}
				}
			}
			fp.tuple[resV] = out
			fp.vals[resV] |= all
			return
		}
		t := tagset(0)
		if len(ts) > 0 {
			t = ts[0]
		}
		fp.setVal(resV, t)
	}
	resTypes := func() []types.Type {
		if resV == nil {
			return nil
		}
		if tup, ok := resV.Type().(*types.Tuple); ok {
			var out []types.Type
			for i := 0; i < tup.Len(); i++ {
				out = append(out, tup.At(i).Type())
			}
			return out
		}
		return []types.Type{resV.Type()}
	}
	defaults := func() []tagset {
		var out []tagset
		for _, t := range resTypes() {
			d := typeDefault(t)
			if d == 0 && isContainer(t) {
				d = tU
			}
			out = append(out, d)
		}
		return out
	}
	if b, ok := com.Value.(*ssa.Builtin); ok {
		switch b.Name() {
		case "append":
			s := fp.tagOf(com.Args[0])
			if !fullSliceExpr(com.Args[0]) {
				fp.site(c, "append (may write into spare capacity of the first argument's backing array)", s)
			}
			setRes([]tagset{s | tF})
		case "copy":
			fp.site(c, "copy into", fp.tagOf(com.Args[0]))
		case "delete", "clear":
			if root, _, ok := fp.addrRoot(com.Args[0]); ok && fp.local[root] {
				return
			}
			fp.site(c, b.Name(), fp.tagOf(com.Args[0]))
		case "min", "max", "len", "cap":
		default:
			setRes(defaults())
		}
		return
	}
	var args []ssa.Value
	args = append(args, com.Args...)
	if com.IsInvoke() {
		recv := fp.tagOf(com.Value)
		if recv&tE != 0 {
			m := com.Method.Name()
			fp.envSite(c, "method "+m+" called on the Env value", !(m == "Get" || m == "Each"))
		}
		for j := range fp.fn.Params {
			if recv&tP(j) != 0 && com.Method.Name() == "Set" && !fp.sum.envMis[j] {
				fp.sum.envMis[j] = true
				fp.pa.changed = true
			}
		}
		setRes(defaults())
		return
	}
	callee := com.StaticCallee()
	if callee == nil || (callee.Parent() != nil && func() bool { _, isMC := com.Value.(*ssa.MakeClosure); return !isMC && false }()) {
		// dynamic call: tell the possible targets what they receive
		var ats []tagset
		for _, a := range args {
			ats = append(ats, absTags(fp.tagOf(a)))
		}
		fs, cs := fp.funcTargets(com.Value, 0)
		for _, g := range fs {
			if fp.pa.inScope(g) {
				fp.pa.addCbArgs(g, ats)
			}
		}
		for _, c := range cs {
			fp.pa.addYieldArgs(c, ats)
		}
		setRes(defaults())
		return
	}
	key := funcKey(callee)
	if m, ok := extModels[shortExt(key)]; ok {
		a0 := tagset(0)
		if len(args) > 0 {
			a0 = fp.tagOf(args[0])
		}
		if m.writes0 {
			fp.site(c, "call of "+shortExt(key)+" (writes its first argument in place)", a0)
		}
		switch {
		case m.fresh:
			setRes([]tagset{tF})
		case m.sameAs0:
			setRes([]tagset{a0 | tF})
		default:
			setRes(defaults())
		}
		return
	}
	if !fp.pa.inScope(callee) {
		setRes(defaults())
		return
	}
	sum := fp.pa.summary(callee)
	if ya := fp.pa.yieldArgs[callee]; ya != nil {
		for j, a := range args {
			if ts, ok := ya[j]; ok {
				fs, cs := fp.funcTargets(a, 0)
				for _, g := range fs {
					if fp.pa.inScope(g) {
						fp.pa.addCbArgs(g, ts)
					}
				}
				for _, c := range cs {
					fp.pa.addYieldArgs(c, ts)
				}
			}
		}
	}
	// a closure called directly (static callee is an anonymous function): its parameters receive these arguments
	if callee.Parent() != nil {
		var ats []tagset
		for _, a := range args {
			ats = append(ats, absTags(fp.tagOf(a)))
		}
		fp.pa.addCbArgs(callee, ats)
	}
	// parameter-relative effects
	subst := func(t tagset) tagset {
		out := t & (tF | tU | tV | tA | tE)
		for j := 0; j < maxParams && j < len(args); j++ {
			if t&tP(j) != 0 {
				out |= fp.tagOf(args[j])
			}
		}
		return out
	}
	for j := range args {
		if j < len(sum.writes) && sum.writes[j] {
			at := fp.tagOf(args[j])
			if root, _, ok := fp.addrRoot(args[j]); ok && fp.local[root] {
				continue
			}
			fp.site(c, fmt.Sprintf("call of %s (writes through its parameter %d)", shortKey(key), j), at)
		}
		if j < len(sum.envMis) && sum.envMis[j] {
			at := fp.tagOf(args[j])
			if at&tE != 0 {
				fp.envSite(c, "Env value passed to "+shortKey(key)+" which may call Set on it", true)
			}
			for k := range fp.fn.Params {
				if at&tP(k) != 0 && !fp.sum.envMis[k] {
					fp.sum.envMis[k] = true
					fp.pa.changed = true
				}
			}
		}
	}
	var rs []tagset
	for i, t := range sum.ret {
		r := subst(t)
		if rt := resTypes(); i < len(rt) {
			if d := typeDefault(rt[i]); d != 0 && r&^tF == 0 && r != tF {
				r |= d
			}
		}
		rs = append(rs, r)
	}
	setRes(rs)
}

func shortExt(key string) string { return key }

// fullSliceExpr: x[a:b:b'] with an explicit capacity equal to the length cannot be appended in place.
func fullSliceExpr(v ssa.Value) bool {
	s, ok := v.(*ssa.Slice)
	if !ok || s.Max == nil || s.High == nil {
		return false
	}
	return s.Max == s.High
}

func (pa *provAnalysis) analyse(fn *ssa.Function, emit bool) {
	fp := &funcProv{pa: pa, fn: fn, sum: pa.summary(fn), vals: map[ssa.Value]tagset{}, tuple: map[ssa.Value][]tagset{}, local: map[*ssa.Alloc]bool{}, ordinal: map[string]int{}, emit: emit}
	for _, b := range fn.Blocks {
		for _, ins := range b.Instrs {
			if a, ok := ins.(*ssa.Alloc); ok {
				fp.local[a] = true
			}
		}
	}
	fp.run()
}

func (pa *provAnalysis) solve() []*ssa.Function {
	fns := pa.allFunctions()
	pa.escaped = map[*ssa.Function]bool{}
	pa.indexClosures(fns)
	for pa.phase = 1; pa.phase <= 2; pa.phase++ {
		if pa.phase == 2 {
			// restart from scratch with the set of closures whose callers are known
			pa.known = pa.cbKnown
			pa.sums = map[*ssa.Function]*provSummary{}
			pa.cell = map[memKey]tagset{}
			pa.cbArgs = map[*ssa.Function][]tagset{}
			pa.cbKnown = map[*ssa.Function]bool{}
			pa.yieldArgs = map[*ssa.Function]map[int][]tagset{}
		}
		for iter := 0; iter < 12; iter++ {
			pa.changed = false
			for _, f := range fns {
				pa.analyse(f, false)
			}
			if !pa.changed {
				break
			}
		}
	}
	pa.phase = 2
	// final pass: emit obligations for functions of the analysed packages
	for _, f := range fns {
		p := f.Pkg
		if p == nil && f.Parent() != nil {
			p = f.Parent().Pkg
		}
		if p == nil && f.Origin() != nil {
			p = f.Origin().Pkg
		}
		if p == nil || !pa.analysed[p.Pkg.Path()] {
			continue
		}
		pa.analyse(f, true)
	}
	return fns
}

func (pa *provAnalysis) resolveFreeVar(fv *ssa.FreeVar) *ssa.Alloc {
	for i := 0; i < 8; i++ {
		b, ok := pa.fvBinding[fv]
		if !ok {
			return nil
		}
		switch x := b.(type) {
		case *ssa.Alloc:
			return x
		case *ssa.FreeVar:
			fv = x
		default:
			return nil
		}
	}
	return nil
}

func (pa *provAnalysis) indexClosures(fns []*ssa.Function) {
	for _, f := range fns {
		for _, b := range f.Blocks {
			for _, ins := range b.Instrs {
				mc, ok := ins.(*ssa.MakeClosure)
				if !ok {
					continue
				}
				cl, ok := mc.Fn.(*ssa.Function)
				if !ok {
					continue
				}
				if closureEscapes(mc, pa) {
					pa.escaped[cl] = true
				}
				for i, bd := range mc.Bindings {
					if i < len(cl.FreeVars) {
						pa.fvBinding[cl.FreeVars[i]] = bd
						if a, ok := bd.(*ssa.Alloc); ok {
							pa.captured[a] = true
						}
					}
				}
			}
		}
	}
	// transitively captured through nested closures
	for fv := range pa.fvBinding {
		if a := pa.resolveFreeVar(fv); a != nil {
			pa.captured[a] = true
		}
	}
}

// closureEscapes: the closure value is used other than being called directly, passed to an in-scope function, or
// kept in a local variable that is itself only used that way.
func closureEscapes(v ssa.Value, pa *provAnalysis) bool {
	refs := v.Referrers()
	if refs == nil {
		return true
	}
	for _, r := range *refs {
		switch x := r.(type) {
		case ssa.CallInstruction:
			com := x.Common()
			if com.Value == v {
				continue // called directly
			}
			callee := com.StaticCallee()
			if callee != nil && pa.inScope(callee) {
				continue
			}
			return true
		case *ssa.Store:
			if a, ok := x.Addr.(*ssa.Alloc); ok && x.Val == v {
				// stored in a local: every use of the local must be a load that is itself well-behaved
				for _, r2 := range *a.Referrers() {
					switch y := r2.(type) {
					case *ssa.Store:
					case *ssa.UnOp:
						if closureEscapes(y, pa) {
							return true
						}
					case *ssa.MakeClosure:
						// captured by a nested closure: uses inside it are calls in practice; be conservative otherwise
					case *ssa.DebugRef:
					default:
						return true
					}
				}
				continue
			}
			return true
		case *ssa.DebugRef:
		default:
			return true
		}
	}
	return false
}

func (pa *provAnalysis) cellStore(k memKey, t tagset) {
	if pa.cell[k]|t != pa.cell[k] {
		pa.cell[k] |= t
		pa.changed = true
	}
}

func (pa *provAnalysis) cellLoad(root *ssa.Alloc, path string) tagset {
	if v, ok := pa.cell[memKey{root, path}]; ok {
		return v
	}
	var t tagset
	found := false
	for p := path; p != ""; {
		i := strings.LastIndexAny(p, ".[")
		if i < 0 {
			break
		}
		p = p[:i]
		if v, ok := pa.cell[memKey{root, p}]; ok {
			t, found = v, true
			break
		}
	}
	if !found {
		if path == "" {
			t = tF
			for k, v := range pa.cell {
				if k.root == ssa.Value(root) {
					t |= v
				}
			}
			return t
		}
		if v, ok := pa.cell[memKey{root, "*"}]; ok {
			return v
		}
		return tF
	}
	return t
}

// funcTargets resolves a function-typed value to the closures it may denote and/or to callback parameters.
type cbParam struct {
	fn  *ssa.Function
	idx int
}

func (fp *funcProv) funcTargets(v ssa.Value, depth int) ([]*ssa.Function, []cbParam) {
	if depth > 6 {
		return nil, nil
	}
	switch x := v.(type) {
	case *ssa.MakeClosure:
		if f, ok := x.Fn.(*ssa.Function); ok {
			return []*ssa.Function{f}, nil
		}
	case *ssa.Function:
		return []*ssa.Function{x}, nil
	case *ssa.Parameter:
		f := x.Parent()
		for j, p := range f.Params {
			if p == x {
				return nil, []cbParam{{f, j}}
			}
		}
	case *ssa.FreeVar:
		if b, ok := fp.pa.fvBinding[x]; ok {
			// the binding lives in the parent's frame
			if a, ok := b.(*ssa.Alloc); ok {
				// captured func-typed variable: find stores of closures / parameters into it in the parent
				var fs []*ssa.Function
				var cs []cbParam
				for _, ref := range *a.Referrers() {
					if st, ok := ref.(*ssa.Store); ok && st.Addr == ssa.Value(a) {
						f2, c2 := fp.funcTargets(st.Val, depth+1)
						fs = append(fs, f2...)
						cs = append(cs, c2...)
					}
				}
				return fs, cs
			}
			return fp.funcTargets(b, depth+1)
		}
	case *ssa.UnOp:
		if x.Op == token.MUL {
			if a, ok := x.X.(*ssa.Alloc); ok {
				var fs []*ssa.Function
				var cs []cbParam
				for _, ref := range *a.Referrers() {
					if st, ok := ref.(*ssa.Store); ok && st.Addr == ssa.Value(a) {
						f2, c2 := fp.funcTargets(st.Val, depth+1)
						fs = append(fs, f2...)
						cs = append(cs, c2...)
					}
				}
				return fs, cs
			}
			if fv, ok := x.X.(*ssa.FreeVar); ok {
				return fp.funcTargets(fv, depth+1)
			}
		}
	case *ssa.Phi:
		var fs []*ssa.Function
		var cs []cbParam
		for _, e := range x.Edges {
			f2, c2 := fp.funcTargets(e, depth+1)
			fs = append(fs, f2...)
			cs = append(cs, c2...)
		}
		return fs, cs
	case *ssa.ChangeType:
		return fp.funcTargets(x.X, depth+1)
	}
	return nil, nil
}

func absTags(t tagset) tagset {
	// parameter-relative bits cannot cross function boundaries: they become "other"
	out := t & (tF | tU | tV | tA | tE)
	if t&^(tF|tU|tV|tA|tE) != 0 {
		out |= tU
	}
	return out
}

func (pa *provAnalysis) addCbArgs(g *ssa.Function, args []tagset) {
	cur := pa.cbArgs[g]
	for len(cur) < len(g.Params) {
		cur = append(cur, 0)
	}
	// closures called directly receive args in order (no receiver)
	for k, t := range args {
		if k < len(cur) && cur[k]|t != cur[k] {
			cur[k] |= t
			pa.changed = true
		}
	}
	pa.cbArgs[g] = cur
	if !pa.cbKnown[g] {
		pa.cbKnown[g] = true
		pa.changed = true
	}
}

func (pa *provAnalysis) addYieldArgs(c cbParam, args []tagset) {
	m := pa.yieldArgs[c.fn]
	if m == nil {
		m = map[int][]tagset{}
		pa.yieldArgs[c.fn] = m
	}
	cur := m[c.idx]
	for len(cur) < len(args) {
		cur = append(cur, 0)
	}
	for k, t := range args {
		if cur[k]|t != cur[k] {
			cur[k] |= t
			pa.changed = true
		}
	}
	if _, had := m[c.idx]; !had {
		pa.changed = true
	}
	m[c.idx] = cur
}

// subshellObligations: every Runner field whose container is mutated in place somewhere in the package must be
// fresh (or zero) in the Runner returned by subshell, so that the subshell cannot write the parent's state.
func (fp *funcProv) subshellObligations(ret *ssa.Return, st provState) {
	root, _, ok := fp.addrRoot(ret.Results[0])
	P := fp.pa.P
	if !ok || !fp.local[root] {
		fp.pa.extra = append(fp.pa.extra, structOb("interp.Runner.subshell#fresh@result", "frame", false, "subshell must return a newly allocated Runner", posStr(P, P.Prog.Fset, ret.Pos())))
		return
	}
	rt := derefType(root.Type()).Underlying().(*types.Struct)
	for i := 0; i < rt.NumFields(); i++ {
		f := rt.Field(i)
		where, mut := fp.pa.runnerMut[f.Name()]
		if !mut || !isContainer(f.Type()) {
			continue
		}
		t, has := st[memKey{root, fmt.Sprintf(".%d", i)}]
		if !has {
			if v, ok := st[memKey{root, "*"}]; ok {
				t, has = v, true
			}
		}
		okF := !has || t&^tF == 0
		d := fmt.Sprintf("Runner.%s is written in place (%s), so the subshell's copy must be freshly allocated or zero; provenance of the value stored: {%s}", f.Name(), where, t)
		o := structOb("interp.Runner.subshell#fresh@"+f.Name(), "frame", okF, d, posStr(P, P.Prog.Fset, ret.Pos()))
		o.Backend = "provenance"
		fp.pa.extra = append(fp.pa.extra, o)
	}
}

// funcScopeObligation: an overlay whose funcScope is set forwards Set to its parent (type-asserted to WriteEnviron);
// that parent must therefore never be the user's Env.
func (fp *funcProv) funcScopeObligation(x *ssa.Store, fa *ssa.FieldAddr, st provState) {
	P := fp.pa.P
	if c, ok := x.Val.(*ssa.Const); ok && c.Value != nil && c.Value.String() == "false" {
		return
	}
	root, path, ok := fp.addrRoot(fa.X)
	okP := false
	detail := "funcScope set on an overlay that is not being constructed here"
	if ok && fp.local[root] {
		stt := derefType(fa.X.Type()).Underlying().(*types.Struct)
		for i := 0; i < stt.NumFields(); i++ {
			if stt.Field(i).Name() == "parent" {
				t, has := st[memKey{root, path + fmt.Sprintf(".%d", i)}]
				// the parent may be stored after funcScope in the literal: look at all stores to it in this function
				for _, ref := range *root.Referrers() {
					if fa2, isFA := ref.(*ssa.FieldAddr); isFA && fa2.Field == i {
						for _, r2 := range *fa2.Referrers() {
							if s2, isS := r2.(*ssa.Store); isS {
								t |= fp.tagOf(s2.Val)
								has = true
							}
						}
					}
				}
				okP = has && t&tE == 0
				detail = fmt.Sprintf("provenance of the parent of the function-scope overlay: {%s}", t)
			}
		}
	}
	o := structOb(shortFuncName(fp.fn)+"#funcscope-parent@"+fp.srcText(x.Pos()), "frame", okP,
		"an overlayEnviron with funcScope forwards Set to its parent; the parent must not be the user's Env. "+detail, posStr(P, P.Prog.Fset, x.Pos()))
	o.Backend = "provenance"
	fp.pa.extra = append(fp.pa.extra, o)
}
