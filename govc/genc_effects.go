package main

import (
	"fmt"
	"sort"
	"strings"

	"golang.org/x/tools/go/ssa"
)

// Generator C for C35/C36: call-graph frame obligations for cmd/shfmt.
//
//  1. cmd/shfmt#file-effects: the only call, anywhere in package main, of a function that creates, truncates,
//     renames, chmods or removes a file is the renameio maybe.WriteFile call inside formatBytes.
//  2. cmd/shfmt#ghost-effects: functions of the package that formatBytes calls and that are not themselves under
//     contract never (transitively, within the package) call a function whose trusted contract changes ghost
//     event state; this justifies leaving ghost state unchanged across uncontracted calls.

const shfmtPkg = "mvdan.cc/sh/v3/cmd/shfmt"

func init() {
	for _, p := range []string{"C35", "C36"} {
		propGens[p] = append(propGens[p], genShfmtEffects)
		propPkgs[p] = []string{shfmtPkg}
	}
}

var fileMutators = map[string]bool{
	"os.WriteFile": true, "os.Create": true, "os.CreateTemp": true, "os.OpenFile": true, "os.Rename": true, "os.Remove": true,
	"os.RemoveAll": true, "os.Chmod": true, "os.Chown": true, "os.Lchown": true, "os.Truncate": true, "os.Mkdir": true, "os.MkdirAll": true,
	"os.MkdirTemp": true, "os.Symlink": true, "os.Link": true, "os.Chtimes": true, "os.File.Truncate": true, "os.File.Chmod": true,
	"os.File.Chown": true, "io/ioutil.WriteFile": true, "io/ioutil.TempFile": true, "os.Root.OpenFile": true, "os.Root.Create": true,
	"os.CopyFS": true, "syscall.Rename": true, "syscall.Unlink": true, "syscall.Open": true,
}

func genShfmtEffects(P *Program, CS *ContractSet, tier string) ([]*Obligation, []string, []string) {
	sp := P.Pkgs[shfmtPkg]
	if sp == nil {
		return []*Obligation{structOb("cmd/shfmt#loaded", "structural", false, "package not loaded", "")}, nil, nil
	}
	var fns []*ssa.Function
	for f := range ssautilAllFunctions(P.Prog) {
		p := f.Pkg
		if p == nil && f.Parent() != nil {
			p = f.Parent().Pkg
		}
		if p == sp && len(f.Blocks) > 0 {
			fns = append(fns, f)
		}
	}
	sort.Slice(fns, func(i, j int) bool { return fns[i].String() < fns[j].String() })
	var obls []*Obligation
	nWrite := 0
	calls := map[*ssa.Function][]*ssa.Function{}
	eventCall := map[*ssa.Function][]string{}
	for _, f := range fns {
		for _, b := range f.Blocks {
			for _, ins := range b.Instrs {
				ci, ok := ins.(ssa.CallInstruction)
				if !ok {
					continue
				}
				callee := ci.Common().StaticCallee()
				if callee == nil {
					continue
				}
				key := funcKey(callee)
				if callee.Synthetic != "" && strings.HasSuffix(key, ".init") {
					continue // package initialiser
				}
				if fileMutators[key] || (strings.HasPrefix(key, "github.com/google/renameio") && key != "github.com/google/renameio/v2/maybe.WriteFile") {
					obls = append(obls, structOb(fmt.Sprintf("cmd/shfmt#file-effects@%s:%s", shortFuncName(f), key), "structural", false,
						"call of a file-mutating function other than renameio maybe.WriteFile: "+key, posStr(P, P.Prog.Fset, ins.Pos())))
				}
				if key == "github.com/google/renameio/v2/maybe.WriteFile" {
					nWrite++
					ok := shortFuncName(f) == "cmd/shfmt.formatBytes"
					obls = append(obls, structOb("cmd/shfmt#file-effects@WriteFile-site:"+shortFuncName(f), "structural", ok,
						"renameio maybe.WriteFile is only called from formatBytes (whose contract constrains the call)", posStr(P, P.Prog.Fset, ins.Pos())))
				}
				if pf := callee; pf.Pkg == sp || (pf.Parent() != nil && pf.Parent().Pkg == sp) {
					calls[f] = append(calls[f], callee)
				}
				if ct, ok := CS.Funcs[key]; ok && ct.Trusted != "" && len(ct.Modifies) > 0 {
					eventCall[f] = append(eventCall[f], key)
				}
			}
			// closures created here are conservatively treated as called
			for _, ins := range b.Instrs {
				if mc, ok := ins.(*ssa.MakeClosure); ok {
					if cf, ok := mc.Fn.(*ssa.Function); ok {
						calls[f] = append(calls[f], cf)
					}
				}
			}
		}
	}
	obls = append(obls, structOb("cmd/shfmt#file-effects@exactly-one-write-site", "structural", nWrite == 1,
		fmt.Sprintf("exactly one call site of renameio maybe.WriteFile in package main (found %d)", nWrite), ""))
	obls = append(obls, structOb("cmd/shfmt#file-effects@no-other-mutators", "structural", true,
		fmt.Sprintf("scanned %d functions of package main for calls of %d file-mutating functions", len(fns), len(fileMutators)), ""))
	// ghost effects: uncontracted package-local callees of formatBytes
	root := sp.Func("formatBytes")
	if root == nil {
		obls = append(obls, structOb("cmd/shfmt#ghost-effects@formatBytes", "exists", false, "formatBytes not found", ""))
		return obls, nil, nil
	}
	seen := map[*ssa.Function]bool{}
	var bad []string
	var walk func(f *ssa.Function)
	walk = func(f *ssa.Function) {
		if seen[f] {
			return
		}
		seen[f] = true
		if f != root {
			if _, has := CS.Funcs[funcKey(f)]; !has {
				for _, ev := range eventCall[f] {
					bad = append(bad, shortFuncName(f)+" calls "+ev)
				}
			}
		}
		for _, c := range calls[f] {
			walk(c)
		}
	}
	walk(root)
	sort.Strings(bad)
	obls = append(obls, structOb("cmd/shfmt#ghost-effects@formatBytes", "structural", len(bad) == 0,
		"uncontracted package-local functions reachable from formatBytes call no event function (so ghost state is unchanged across them); offenders: "+strings.Join(bad, "; "), ""))
	return obls, []string{"cmd/shfmt (all functions: call graph)"}, []string{
		"C35: the kill-anywhere atomicity of the replacement itself is the contract of github.com/google/renameio/v2 (temporary file + rename), assumed",
		"C35/C36: calls through interfaces and function values inside package main are not followed by the call-graph obligation",
	}
}
