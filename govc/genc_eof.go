package main

import (
	"fmt"
	"go/constant"
	"go/token"
	"go/types"
	"sort"
	"strings"

	"golang.org/x/tools/go/ssa"
)

// Generator C for C06 (parsing never hangs), over the go/ssa of package syntax.
//
// Parser.rune returns the sentinel runeEOF forever once the input is exhausted (or an error stopped the lexer), and
// Parser.next then yields the token _EOF forever. A loop whose progress is a call to rune() or next() therefore
// terminates for every input only if it cannot keep cycling once those sentinels are all it sees.
//
// Obligation syntax#eof-exit@<func>:<rune|next><k>: take the function's CFG and assume the steady state at end of
// input: every result of p.rune(), every load of p.r and every phi fed only by such values equals runeEOF (for calls
// of next(): loads of p.tok equal _EOF). Branches whose condition is decided by that assumption (comparisons of such a
// value with a constant, including the compare chains of a switch) keep only the taken edge; back edges of range
// loops are removed (a range loop is bounded by the length taken on entry). The k-th call of rune()/next() in the
// function must then not lie on a cycle. This is a sufficient condition decided on the real code's SSA; it is not a
// termination proof of the parser (see the assumptions).

func init() {
	propGens["C06"] = append(propGens["C06"], genEOFExit)
	propPkgs["C06"] = []string{syntaxPkg}
}

type eofMode int

const (
	eofRune eofMode = iota
	eofTok
)

func genEOFExit(P *Program, CS *ContractSet, tier string) ([]*Obligation, []string, []string) {
	var obls []*Obligation
	runeEOF := int64(0x10FFFF + 1)
	tokEOF, _ := langConst(P, "_EOF")
	nr, nn := 0, 0
	fns := pkgFunctions(P, syntaxPkg)
	sort.Slice(fns, func(i, j int) bool { return shortFuncName(fns[i]) < shortFuncName(fns[j]) })
	for _, f := range fns {
		if len(f.Blocks) == 0 {
			continue
		}
		for _, mode := range []eofMode{eofRune, eofTok} {
			target := "syntax.Parser.rune"
			label := "rune"
			if mode == eofTok {
				target, label = "syntax.Parser.next", "next"
			}
			type site struct {
				b   *ssa.BasicBlock
				pos token.Pos
			}
			var sites []site
			for _, b := range f.Blocks {
				for _, ins := range b.Instrs {
					if ci, ok := ins.(ssa.CallInstruction); ok {
						if _, isGo := ins.(*ssa.Go); isGo {
							continue
						}
						if _, isDefer := ins.(*ssa.Defer); isDefer {
							continue
						}
						if callee := ci.Common().StaticCallee(); callee != nil && shortFuncName(callee) == target {
							sites = append(sites, site{b, ins.Pos()})
						}
					}
				}
			}
			if len(sites) == 0 {
				continue
			}
			succ, alts := eofPrunedSuccs(f, mode, runeEOF, tokEOF)
			for k, s := range sites {
				onCycle := reachesItself(s.b.Index, succ)
				for _, alt := range alts {
					if reachesItself(s.b.Index, alt) {
						onCycle = true
					}
				}
				if !inAnyLoop(f, s.b) {
					continue // straight-line call: nothing to decide
				}
				if mode == eofRune {
					nr++
				} else {
					nn++
				}
				name := fmt.Sprintf("syntax#eof-exit@%s:%s%d", strings.TrimPrefix(shortFuncName(f), "syntax."), label, k+1)
				d := "a loop that advances the input with " + label + "() cannot keep cycling once the input has ended (all later " + label + "() results are the end-of-input sentinel)"
				if onCycle {
					d += "; this call stays on a cycle under that assumption: the loop has no exit that end of input forces"
				}
				obls = append(obls, structOb(name, "structural", !onCycle, d, posStr(P, P.Prog.Fset, s.pos)))
			}
		}
	}
	obls = append(obls, structOb("syntax#eof-exit@sites-found", "structural", nr >= 20 && nn >= 5,
		fmt.Sprintf("calls inside loops: rune() %d (at least 20 expected), next() %d (at least 5 expected)", nr, nn), ""))
	return obls, []string{"syntax (all loops that directly call Parser.rune or Parser.next)"}, []string{
		"C06: Parser.rune returns runeEOF forever once the input is exhausted or an error was raised, and Parser.next then returns _EOF forever (checked only for the buffer layer, see the fill/peek contracts)",
		"C06: loops whose progress is made inside helper calls, recursion depth and running time are not covered",
	}
}

func inAnyLoop(f *ssa.Function, b *ssa.BasicBlock) bool {
	succ := make([][]int, len(f.Blocks))
	for _, x := range f.Blocks {
		for _, s := range x.Succs {
			succ[x.Index] = append(succ[x.Index], s.Index)
		}
	}
	return reachesItself(b.Index, succ)
}

func reachesItself(start int, succ [][]int) bool {
	seen := map[int]bool{}
	stack := append([]int(nil), succ[start]...)
	for len(stack) > 0 {
		n := stack[len(stack)-1]
		stack = stack[:len(stack)-1]
		if n == start {
			return true
		}
		if seen[n] {
			continue
		}
		seen[n] = true
		stack = append(stack, succ[n]...)
	}
	return false
}

// eofPrunedSuccs returns the successor lists of f's blocks under the end-of-input steady-state assumption.
type selfPhi struct {
	phi    *ssa.Phi
	tEdges [][2]int
}

func eofPrunedSuccs(f *ssa.Function, mode eofMode, runeEOF, tokEOF int64) (pruned [][]int, alts [][][]int) {
	succ, selfPhis := eofPruned1(f, mode, runeEOF, tokEOF, nil, nil)
	// A sentinel phi with a self edge keeps its entry value for as long as only the self edge is taken. An infinite run
	// either takes one of the phi's sentinel edges infinitely often (the pruned graph covers it) or eventually stays in
	// the CFG without those edges: one alternative graph per such phi, pruned without any fact about that phi, covers
	// that case.
	for _, sp := range selfPhis {
		alt, _ := eofPruned1(f, mode, runeEOF, tokEOF, sp.phi, sp.tEdges)
		alts = append(alts, alt)
	}
	return succ, alts
}

func eofPruned1(f *ssa.Function, mode eofMode, runeEOF, tokEOF int64, banned *ssa.Phi, removed [][2]int) ([][]int, []selfPhi) {
	var selfPhis []selfPhi
	sentinel := map[ssa.Value]bool{}
	sval := map[ssa.Value]int64{}
	sv := runeEOF
	if mode == eofTok {
		sv = tokEOF
	}
	isSentinelLoad := func(v ssa.Value) bool {
		u, ok := v.(*ssa.UnOp)
		if !ok || u.Op != token.MUL {
			return false
		}
		fa, ok := u.X.(*ssa.FieldAddr)
		if !ok {
			return false
		}
		pt, ok := fa.X.Type().Underlying().(*types.Pointer)
		if !ok {
			return false
		}
		named, ok := pt.Elem().(*types.Named)
		if !ok || named.Obj().Name() != "Parser" {
			return false
		}
		st := named.Underlying().(*types.Struct)
		fn := st.Field(fa.Field).Name()
		return (mode == eofRune && fn == "r") || (mode == eofTok && fn == "tok")
	}
	for _, b := range f.Blocks {
		for _, ins := range b.Instrs {
			v, ok := ins.(ssa.Value)
			if !ok {
				continue
			}
			if c, ok := ins.(*ssa.Call); ok && mode == eofRune {
				if callee := c.Common().StaticCallee(); callee != nil {
					switch shortFuncName(callee) {
					case "syntax.Parser.rune":
						sentinel[v], sval[v] = true, sv
					case "syntax.Parser.peek":
						// peek returns utf8.RuneSelf when no byte is left
						sentinel[v], sval[v] = true, 0x80
					}
				}
			}
			if ex, ok := ins.(*ssa.Extract); ok && mode == eofRune {
				if c, ok := ex.Tuple.(*ssa.Call); ok {
					if callee := c.Common().StaticCallee(); callee != nil && shortFuncName(callee) == "syntax.Parser.peekTwo" {
						sentinel[v], sval[v] = true, 0x80
					}
				}
			}
			if isSentinelLoad(v) {
				sentinel[v], sval[v] = true, sv
			}
		}
	}
	// phis and conversions fed only by sentinels (ignoring the edges that enter a loop from outside is not needed for
	// soundness: only in-cycle values matter, so a phi counts if every edge coming from a block that can reach the phi's
	// block again is a sentinel).
	fullSucc := make([][]int, len(f.Blocks))
	for _, x := range f.Blocks {
		for _, s := range x.Succs {
			fullSucc[x.Index] = append(fullSucc[x.Index], s.Index)
		}
	}
	reach := func(from, to int) bool {
		seen := map[int]bool{}
		stack := []int{from}
		for len(stack) > 0 {
			n := stack[len(stack)-1]
			stack = stack[:len(stack)-1]
			if n == to {
				return true
			}
			if seen[n] {
				continue
			}
			seen[n] = true
			stack = append(stack, fullSucc[n]...)
		}
		return false
	}
	for changed := true; changed; {
		changed = false
		for _, b := range f.Blocks {
			for _, ins := range b.Instrs {
				switch x := ins.(type) {
				case *ssa.Phi:
					if sentinel[x] || x == banned {
						continue
					}
					all, any, self := true, false, false
					var val int64
					var tEdges [][2]int
					for i, e := range x.Edges {
						pred := b.Preds[i]
						// only edges from blocks the phi's block can reach (in-cycle edges)
						if !reach(b.Index, pred.Index) {
							continue
						}
						if e == ssa.Value(x) {
							self = true
							continue
						}
						if !sentinel[e] || (any && sval[e] != val) {
							all = false
							continue
						}
						any = true
						val = sval[e]
						tEdges = append(tEdges, [2]int{pred.Index, b.Index})
					}
					if all && any {
						sentinel[x], sval[x] = true, val
						changed = true
						if self {
							selfPhis = append(selfPhis, selfPhi{x, tEdges})
						}
					}
				case *ssa.ChangeType:
					if sentinel[x.X] && !sentinel[x] {
						sentinel[x], sval[x] = true, sval[x.X]
						changed = true
					}
				}
			}
		}
	}
	var decide func(v ssa.Value, depth int) (bool, bool)
	decide = func(v ssa.Value, depth int) (val bool, known bool) {
		if depth > 3 {
			return false, false
		}
		switch x := v.(type) {
		case *ssa.UnOp:
			if x.Op == token.NOT {
				r, k := decide(x.X, depth+1)
				return !r, k
			}
		case *ssa.BinOp:
			var c *ssa.Const
			var other ssa.Value
			flip := false
			if cc, ok := x.Y.(*ssa.Const); ok {
				c, other = cc, x.X
			} else if cc, ok := x.X.(*ssa.Const); ok {
				c, other, flip = cc, x.Y, true
			}
			if c == nil || c.Value == nil || c.Value.Kind() != constant.Int || !sentinel[other] {
				return false, false
			}
			cv, ok := constant.Int64Val(c.Value)
			if !ok {
				return false, false
			}
			a, b := sval[other], cv
			if flip {
				a, b = cv, sval[other]
			}
			switch x.Op {
			case token.EQL:
				return a == b, true
			case token.NEQ:
				return a != b, true
			case token.LSS:
				return a < b, true
			case token.LEQ:
				return a <= b, true
			case token.GTR:
				return a > b, true
			case token.GEQ:
				return a >= b, true
			}
		}
		return false, false
	}
	succ := make([][]int, len(f.Blocks))
	for _, b := range f.Blocks {
		if iff, ok := lastInstr(b).(*ssa.If); ok && len(b.Succs) == 2 {
			if val, known := decide(iff.Cond, 0); known {
				if val {
					succ[b.Index] = []int{b.Succs[0].Index}
				} else {
					succ[b.Index] = []int{b.Succs[1].Index}
				}
				continue
			}
		}
		for _, s := range b.Succs {
			isRemoved := false
			for _, te := range removed {
				if te[0] == b.Index && te[1] == s.Index {
					isRemoved = true
				}
			}
			if isRemoved {
				continue
			}
			// a range loop is bounded by the length (or channel/map) taken on entry: drop its back edges
			if (s.Comment == "rangeindex.loop" || s.Comment == "rangeiter.loop") && s.Dominates(b) {
				continue
			}
			succ[b.Index] = append(succ[b.Index], s.Index)
		}
	}
	return succ, selfPhis
}
