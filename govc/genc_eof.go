package main

import (
	"fmt"
	"go/constant"
	"go/token"
	"strings"

	"golang.org/x/tools/go/ssa"
)

// Generator C for C06 (parsing never hangs), over the go/ssa of package syntax.
//
// Parser.rune returns the sentinel runeEOF forever once the input is exhausted (or an error stopped the lexer), so a
// loop that advances the input by calling rune() can only be guaranteed to end if it has an exit that tests for that
// sentinel. Obligation syntax#eof-exit@<func>:loop<N>: every natural loop whose blocks call Parser.rune contains a
// comparison of a rune with runeEOF (or of a token with _EOF) that controls an edge leaving the loop.

func init() {
	propGens["C06"] = append(propGens["C06"], genEOFExit)
	propPkgs["C06"] = []string{syntaxPkg}
}

func genEOFExit(P *Program, CS *ContractSet, tier string) ([]*Obligation, []string, []string) {
	var obls []*Obligation
	runeEOF := int64(0x10FFFF + 1)
	tokEOF, _ := langConst(P, "_EOF")
	n := 0
	for _, f := range pkgFunctions(P, syntaxPkg) {
		e := &Enc{P: P, Fn: f, loops: map[int]*loopInfo{}, loopOf: map[int][]*loopInfo{}}
		e.findLoops()
		for hi, li := range e.loops {
			callsRune := false
			for bi := range li.blocks {
				for _, ins := range f.Blocks[bi].Instrs {
					if ci, ok := ins.(ssa.CallInstruction); ok {
						if callee := ci.Common().StaticCallee(); callee != nil && shortFuncName(callee) == "syntax.Parser.rune" {
							callsRune = true
						}
					}
				}
			}
			if !callsRune {
				continue
			}
			n++
			hasExit := false
			for bi := range li.blocks {
				b := f.Blocks[bi]
				iff, ok := lastInstr(b).(*ssa.If)
				if !ok {
					continue
				}
				leaves := false
				for _, s := range b.Succs {
					if !li.blocks[s.Index] {
						leaves = true
					}
				}
				if !leaves {
					continue
				}
				if condTestsEOF(iff.Cond, runeEOF, tokEOF, 0) {
					hasExit = true
				}
			}
			pos := token.NoPos
			for _, ins := range f.Blocks[hi].Instrs {
				if ins.Pos().IsValid() {
					pos = ins.Pos()
					break
				}
			}
			if !pos.IsValid() {
				for bi := range li.blocks {
					for _, ins := range f.Blocks[bi].Instrs {
						if ins.Pos().IsValid() && (!pos.IsValid() || ins.Pos() < pos) {
							pos = ins.Pos()
						}
					}
				}
			}
			name := fmt.Sprintf("syntax#eof-exit@%s:loop%d", strings.TrimPrefix(shortFuncName(f), "syntax."), li.ordinal)
			d := "a loop that advances the input with rune() has an exit that tests for end of input (runeEOF / _EOF)"
			if !hasExit {
				d += "; this loop has none: it does not terminate when the input ends first"
			}
			obls = append(obls, structOb(name, "structural", hasExit, d, posStr(P, P.Prog.Fset, pos)))
		}
	}
	obls = append(obls, structOb("syntax#eof-exit@loops-found", "structural", n >= 10, fmt.Sprintf("loops calling rune(): %d (at least 10 expected)", n), ""))
	return obls, []string{"syntax (all loops that call Parser.rune)"}, []string{
		"C06: Parser.rune returns runeEOF forever once the input is exhausted or an error was raised (not proved here)",
		"C06: loops that advance with next() or through helper calls, recursion depth and running time are not covered",
	}
}

func condTestsEOF(v ssa.Value, runeEOF, tokEOF int64, depth int) bool {
	if depth > 4 {
		return false
	}
	switch x := v.(type) {
	case *ssa.BinOp:
		switch x.Op {
		case token.EQL, token.NEQ:
			for _, op := range []ssa.Value{x.X, x.Y} {
				if c, ok := op.(*ssa.Const); ok && c.Value != nil && c.Value.Kind() == constant.Int {
					if iv, ok := constant.Int64Val(c.Value); ok {
						tn := c.Type().String()
						if (iv == runeEOF && (strings.HasSuffix(tn, "rune") || strings.HasSuffix(tn, "int32"))) || (iv == tokEOF && strings.HasSuffix(tn, "token")) {
							return true
						}
					}
				}
			}
		}
	case *ssa.UnOp:
		return condTestsEOF(x.X, runeEOF, tokEOF, depth+1)
	case *ssa.Phi:
		// short-circuit conditions: a && b
		for _, e := range x.Edges {
			if condTestsEOF(e, runeEOF, tokEOF, depth+1) {
				return true
			}
		}
	}
	return false
}
