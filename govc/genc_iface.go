package main

import (
	"fmt"
	"go/types"
	"sort"
)

// Generator C for C09 (interface purity): the contracts of the interface methods Node.Pos/End (and of the interfaces
// that embed Node) say `pure`, and the results of pure calls are treated as functions of the receiver and the heap.
// That is only justified if every implementation in package syntax is verified to be pure. One obligation per
// implementing type and method: the method has a contract of its own (not a trusted one) that says `pure` and counts
// for C09, so its frame obligations are generated and discharged in the same run.

func init() {
	propGens["C09"] = append(propGens["C09"], genIfacePure)
}

func genIfacePure(P *Program, CS *ContractSet, tier string) ([]*Obligation, []string, []string) {
	sp := P.Pkgs[syntaxPkg]
	if sp == nil {
		return nil, nil, nil
	}
	nodeObj := sp.Pkg.Scope().Lookup("Node")
	if nodeObj == nil {
		return []*Obligation{{Name: "syntax#iface-pure@Node", Kind: "iface-pure", Backend: "structural", OK: false, Detail: "interface Node not found"}}, nil, nil
	}
	node, _ := nodeObj.Type().Underlying().(*types.Interface)
	var obls []*Obligation
	var names []string
	for _, n := range sp.Pkg.Scope().Names() {
		names = append(names, n)
	}
	sort.Strings(names)
	for _, n := range names {
		tn, ok := sp.Pkg.Scope().Lookup(n).(*types.TypeName)
		if !ok {
			continue
		}
		named, ok := tn.Type().(*types.Named)
		if !ok {
			continue
		}
		if _, isIface := named.Underlying().(*types.Interface); isIface {
			continue
		}
		if node == nil || (!types.Implements(types.NewPointer(named), node) && !types.Implements(named, node)) {
			continue
		}
		for _, m := range []string{"Pos", "End"} {
			key := syntaxPkg + "." + n + "." + m
			o := &Obligation{Name: fmt.Sprintf("syntax#iface-pure@%s.%s", n, m), Func: "syntax." + n + "." + m, Kind: "iface-pure", Backend: "structural",
				Descr: "implementation of Node." + m + " is under a verified pure contract"}
			ct := CS.Funcs[key]
			switch {
			case ct == nil:
				o.Detail = "no contract: the purity assumed for the interface method is not established for this implementation"
			case ct.Trusted != "":
				o.Detail = "contract is trusted, not verified"
			case !ct.Pure:
				o.Detail = "contract does not say pure"
			default:
				has := false
				for _, p := range ct.Props {
					if p == "C09" {
						has = true
					}
				}
				if !has {
					o.Detail = "contract does not count for C09, so its frame obligations are not part of this check"
				} else {
					o.OK = true
				}
			}
			obls = append(obls, o)
		}
	}
	return obls, nil, []string{"results of pure functions are functions of their arguments and the heap (no hidden inputs such as clocks or I/O in Pos/End methods)"}
}
