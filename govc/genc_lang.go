package main

import (
	"fmt"
	"go/constant"
	"go/token"
	"go/types"
	"sort"
	"strings"

	"golang.org/x/tools/go/ssa"
)

// Generator C for C11 (language variants gate their features consistently), over the go/ssa of package syntax.
//
// (i)  Bash ⊆ Bats: every constant language set used in a gate (argument of LangVariant.in or Parser.checkLang, or
//      compared with ==/!=) that admits Bash admits Bats; sets that admit Bats but not Bash are enumerated one
//      obligation each (they make a Bash-accepted program parse differently as Bats).
// (iii) Recovery is inert on valid input: recoverErrorsMax/recoveredErrors are only touched by recoverError, reset
//      and the RecoverErrors option; at every call site of recoverError, when it returns false an error is raised
//      before anything else can happen (every path from the false outcome reaches a call that certainly sets p.err).
//      Hence a parse that raises no error without recovery never calls recoverError at all.

func init() {
	propGens["C11"] = append(propGens["C11"], genLang)
	propPkgs["C11"] = []string{syntaxPkg}
}

func langConst(P *Program, name string) (int64, bool) {
	sp := P.Pkgs[syntaxPkg]
	if sp == nil {
		return 0, false
	}
	c, ok := sp.Pkg.Scope().Lookup(name).(*types.Const)
	if !ok {
		return 0, false
	}
	v, ok := constant.Int64Val(c.Val())
	return v, ok
}

func isLangVariant(t types.Type) bool {
	n, ok := types.Unalias(t).(*types.Named)
	return ok && n.Obj().Name() == "LangVariant" && n.Obj().Pkg() != nil && n.Obj().Pkg().Path() == syntaxPkg
}

func pkgFunctions(P *Program, pkgPath string) []*ssa.Function {
	sp := P.Pkgs[pkgPath]
	var fns []*ssa.Function
	for f := range ssautilAllFunctions(P.Prog) {
		p := f.Pkg
		if p == nil && f.Parent() != nil {
			p = f.Parent().Pkg
		}
		if p == sp && len(f.Blocks) > 0 {
			fns = append(fns, f)
		}
	}
	sort.Slice(fns, func(i, j int) bool { return fns[i].String() < fns[j].String() })
	return fns
}

func srcLine(P *Program, pos token.Pos) string {
	if !pos.IsValid() {
		return "?"
	}
	p := P.Prog.Fset.Position(pos)
	src := fileSrcCached(p.Filename)
	if src == nil {
		return "?"
	}
	start := p.Offset
	for start > 0 && src[start-1] != '\n' {
		start--
	}
	end := p.Offset
	for end < len(src) && src[end] != '\n' {
		end++
	}
	line := strings.Join(strings.Fields(string(src[start:end])), "")
	if len(line) > 60 {
		line = line[:60]
	}
	return line
}

func genLang(P *Program, CS *ContractSet, tier string) ([]*Obligation, []string, []string) {
	var obls []*Obligation
	bash, ok1 := langConst(P, "LangBash")
	bats, ok2 := langConst(P, "LangBats")
	if !ok1 || !ok2 {
		return []*Obligation{structOb("syntax#lang-constants", "structural", false, "LangBash/LangBats not found", "")}, nil, nil
	}
	fns := pkgFunctions(P, syntaxPkg)
	occ := map[string]int{}
	name := func(kind string, f *ssa.Function, pos token.Pos) string {
		base := fmt.Sprintf("syntax#%s@%s:%s", kind, strings.TrimPrefix(shortFuncName(f), "syntax."), srcLine(P, pos))
		occ[base]++
		if occ[base] > 1 {
			return fmt.Sprintf("%s~%d", base, occ[base])
		}
		return base
	}
	nGates := 0
	checkSet := func(f *ssa.Function, ins ssa.Instruction, c *ssa.Const, what string) {
		if c.Value == nil {
			return
		}
		v, ok := constant.Int64Val(constant.ToInt(c.Value))
		if !ok {
			return
		}
		nGates++
		hasBash, hasBats := v&bash != 0, v&bats != 0
		pos := posStr(P, P.Prog.Fset, ins.Pos())
		switch {
		case hasBash && !hasBats:
			obls = append(obls, structOb(name("bash-implies-bats", f, ins.Pos()), "structural", false,
				fmt.Sprintf("%s uses the language set %#x which admits Bash but not Bats: a program accepted as Bash would be rejected or parsed differently as Bats", what, v), pos))
		case hasBats && !hasBash:
			obls = append(obls, structOb(name("bats-only", f, ins.Pos()), "structural", false,
				fmt.Sprintf("%s uses the language set %#x which admits Bats but not Bash: the same input is treated differently in the two variants", what, v), pos))
		default:
			obls = append(obls, structOb(name("bash-implies-bats", f, ins.Pos()), "structural", true,
				fmt.Sprintf("%s: language set %#x treats Bash and Bats alike", what, v), pos))
		}
	}
	// (i)
	for _, f := range fns {
		for _, b := range f.Blocks {
			for _, ins := range b.Instrs {
				switch x := ins.(type) {
				case ssa.CallInstruction:
					callee := x.Common().StaticCallee()
					if callee == nil {
						continue
					}
					key := funcKey(callee)
					args := x.Common().Args
					switch key {
					case syntaxPkg + ".LangVariant.in":
						if len(args) == 2 {
							if c, ok := args[1].(*ssa.Const); ok {
								checkSet(f, ins, c, "lang.in(...)")
							}
						}
					case syntaxPkg + ".Parser.checkLang":
						if len(args) >= 3 {
							if c, ok := args[2].(*ssa.Const); ok {
								checkSet(f, ins, c, "checkLang(...)")
							}
						}
					}
				case *ssa.BinOp:
					if x.Op != token.EQL && x.Op != token.NEQ {
						continue
					}
					if !isLangVariant(x.X.Type()) {
						continue
					}
					// comparisons of the parser's variant with a constant (Variant()'s own validation switch is exempt)
					if strings.HasSuffix(shortFuncName(f), "syntax.Variant") || strings.Contains(shortFuncName(f), "LangVariant.") {
						continue
					}
					for _, op := range []ssa.Value{x.X, x.Y} {
						if c, ok := op.(*ssa.Const); ok {
							checkSet(f, ins, c, "comparison of a language variant with a constant")
						}
					}
				}
			}
		}
	}
	obls = append(obls, structOb("syntax#bash-implies-bats@gates-found", "structural", nGates >= 40,
		fmt.Sprintf("language gates with constant sets found in package syntax: %d (at least 40 expected)", nGates), ""))
	// (iii) a: the recovery counters are only touched by recoverError, reset and the option
	allowed := map[string]bool{"syntax.Parser.recoverError": true, "syntax.Parser.reset": true, "syntax.RecoverErrors$1": true, "syntax.RecoverErrors": true}
	for _, f := range fns {
		for _, b := range f.Blocks {
			for _, ins := range b.Instrs {
				fa, ok := ins.(*ssa.FieldAddr)
				if !ok {
					continue
				}
				st, ok := derefType(fa.X.Type()).Underlying().(*types.Struct)
				if !ok {
					continue
				}
				fn := st.Field(fa.Field).Name()
				if fn != "recoverErrorsMax" && fn != "recoveredErrors" {
					continue
				}
				if n, ok := types.Unalias(derefType(fa.X.Type())).(*types.Named); !ok || n.Obj().Name() != "Parser" {
					continue
				}
				okf := allowed[shortFuncName(f)]
				obls = append(obls, structOb(name("recovery-state", f, ins.Pos()), "structural", okf,
					"Parser."+fn+" is only accessed by recoverError, reset and the RecoverErrors option (accessed in "+shortFuncName(f)+")", posStr(P, P.Prog.Fset, ins.Pos())))
			}
		}
	}
	// (iii) b: ERR = functions that set p.err on every path
	errSet := map[*ssa.Function]bool{}
	var errPass *ssa.Function
	for _, f := range fns {
		if shortFuncName(f) == "syntax.Parser.errPass" {
			errPass = f
		}
	}
	if errPass == nil {
		obls = append(obls, structOb("syntax#recovery@errPass", "exists", false, "Parser.errPass not found", ""))
		return obls, nil, nil
	}
	// errPass: after it returns, p.err != nil (it stores err when p.err == nil). Checked by shape: one If on p.err == nil,
	// whose true branch stores to p.err.
	errSet[errPass] = errPassShape(errPass)
	obls = append(obls, structOb("syntax.Parser.errPass#sets-err", "structural", errSet[errPass],
		"after errPass returns, p.err is non-nil: it stores its (non-nil) argument whenever p.err is nil", posStr(P, P.Prog.Fset, errPass.Pos())))
	// fixpoint: f ∈ ERR if every path from entry to a return passes a call to an ERR function
	for changed := true; changed; {
		changed = false
		for _, f := range fns {
			if errSet[f] {
				continue
			}
			if mustCall(f, f.Blocks[0], 0, errSet) {
				errSet[f] = true
				changed = true
			}
		}
	}
	var recov *ssa.Function
	for _, f := range fns {
		if shortFuncName(f) == "syntax.Parser.recoverError" {
			recov = f
		}
	}
	nSites := 0
	for _, f := range fns {
		for _, b := range f.Blocks {
			for i, ins := range b.Instrs {
				ci, ok := ins.(*ssa.Call)
				if !ok || ci.Common().StaticCallee() != recov || recov == nil {
					continue
				}
				nSites++
				// the result must directly decide a branch at the end of this block
				okSite := false
				detail := "the result of recoverError() does not directly control a branch"
				if iff, isIf := lastInstr(b).(*ssa.If); isIf && iff.Cond == ssa.Value(ci) {
					// nothing but the branch may follow the call in this block
					clean := true
					for _, later := range b.Instrs[i+1 : len(b.Instrs)-1] {
						if _, isDbg := later.(*ssa.DebugRef); !isDbg {
							clean = false
						}
					}
					falseSucc := b.Succs[1]
					if clean && mustCall(f, falseSucc, 0, errSet) {
						okSite = true
						detail = "when recoverError() returns false every path raises a parse error before returning"
					} else {
						detail = "when recoverError() returns false there is a path that raises no error: recovery would be consulted on input that is valid without it"
					}
				} else if un, isNot := singleUse(ci).(*ssa.UnOp); isNot && un.Op == token.NOT {
					if iff, isIf := lastInstr(b).(*ssa.If); isIf && iff.Cond == ssa.Value(un) {
						if mustCall(f, b.Succs[0], 0, errSet) {
							okSite = true
							detail = "when recoverError() returns false every path raises a parse error before returning"
						} else {
							detail = "when recoverError() returns false there is a path that raises no error"
						}
					}
				}
				obls = append(obls, structOb(name("recovery-only-on-error", f, ins.Pos()), "structural", okSite, detail, posStr(P, P.Prog.Fset, ins.Pos())))
			}
		}
	}
	obls = append(obls, structOb("syntax#recovery-only-on-error@sites-found", "structural", nSites >= 10,
		fmt.Sprintf("call sites of recoverError found: %d (at least 10 expected)", nSites), ""))
	return obls, []string{"syntax (all functions: language gates, recovery call sites)"}, []string{
		"C11(iii): a parse error raised while p.err is already set does not count as a new error (errPass keeps the first)",
		"C11(ii) (POSIX accepts no foreign construct) is not decided by this check",
	}
}

func singleUse(v ssa.Value) ssa.Instruction {
	refs := v.Referrers()
	if refs == nil {
		return nil
	}
	var out ssa.Instruction
	n := 0
	for _, r := range *refs {
		if _, isDbg := r.(*ssa.DebugRef); isDbg {
			continue
		}
		out = r
		n++
	}
	if n == 1 {
		return out
	}
	return nil
}

func errPassShape(f *ssa.Function) bool {
	// some block stores a parameter into a field named err of the receiver, guarded by `p.err == nil`
	for _, b := range f.Blocks {
		for _, ins := range b.Instrs {
			st, ok := ins.(*ssa.Store)
			if !ok {
				continue
			}
			fa, ok := st.Addr.(*ssa.FieldAddr)
			if !ok {
				continue
			}
			s, ok := derefType(fa.X.Type()).Underlying().(*types.Struct)
			if !ok || s.Field(fa.Field).Name() != "err" {
				continue
			}
			if _, isParam := st.Val.(*ssa.Parameter); isParam {
				return true
			}
		}
	}
	return false
}

// mustCall: every path from block b to a return of f executes a call to a function in set (a loop without such a
// call counts as a path that never reaches one only if it can exit to a return without one).
func mustCall(f *ssa.Function, start *ssa.BasicBlock, depth int, set map[*ssa.Function]bool) bool {
	visiting := map[int]bool{}
	memo := map[int]bool{}
	var walk func(b *ssa.BasicBlock) bool
	walk = func(b *ssa.BasicBlock) bool {
		if v, ok := memo[b.Index]; ok {
			return v
		}
		if visiting[b.Index] {
			return true // a cycle by itself does not return
		}
		visiting[b.Index] = true
		defer func() { visiting[b.Index] = false }()
		for _, ins := range b.Instrs {
			if ci, ok := ins.(ssa.CallInstruction); ok {
				if _, isDefer := ins.(*ssa.Defer); isDefer {
					continue
				}
				if callee := ci.Common().StaticCallee(); callee != nil && set[callee] {
					memo[b.Index] = true
					return true
				}
			}
			switch ins.(type) {
			case *ssa.Return:
				memo[b.Index] = false
				return false
			case *ssa.Panic:
				memo[b.Index] = true
				return true
			}
		}
		if len(b.Succs) == 0 {
			memo[b.Index] = false
			return false
		}
		for _, s := range b.Succs {
			if !walk(s) {
				memo[b.Index] = false
				return false
			}
		}
		memo[b.Index] = true
		return true
	}
	return walk(start)
}
