package main

import (
	"fmt"
	"go/types"
	"sort"
	"strings"

	"golang.org/x/tools/go/ssa"
)

// Generator C for C30 (options mirrored into the expansion configuration). Runner.opts is the state of the shell
// options; Runner.ecfg holds a copy of some of them (NoUnset, GlobStar, ...), refreshed only by updateExpandOpts. Run
// refreshes the copy once before it starts (fillExpandConfig), so a statement that changes an option without
// refreshing the copy behaves differently inside one Run call (stale copy) and across two Run calls (fresh copy): the
// second clause of C30. The obligation, one per function of package interp that can write Runner.opts:
//
//	interp#opts-mirrored@<func>   on every path from a write of Runner.opts to a return of the function there is a
//	                              call of updateExpandOpts (or of a function that always ends with one)
//
// Writes: a store through an address derived from the field opts of a Runner (FieldAddr/IndexAddr, through phis and
// through the functions of the package that return such an address: posixOptByFlag, posixOptByName, bashOptByName),
// a call of a function of the package that can return with the copy stale, and a dynamic call of a RunnerOption
// (func(*Runner) error: `Params(args...)(r)`). A must-analysis over the control-flow graph (forward, "stale" is a
// may-fact, merges take the union). Configuration-time functions are exempt and named as such: RunnerOption closures,
// New and Reset run before Run refreshes the copy; that Run does so after Reset is the obligation on Runner.Run.
// Not covered: writes through reflection or unsafe; other dynamic calls (handlers cannot name the unexported field).

func init() {
	propGens["C30"] = append(propGens["C30"], genOptsMirror)
}

type mirrorInfo struct {
	hasWrite    bool
	staleReturn string // position of a return reachable with a stale copy ("" if none)
	cleaner     bool   // every return is reached with a fresh copy even if the entry is stale
}

func genOptsMirror(P *Program, CS *ContractSet, tier string) ([]*Obligation, []string, []string) {
	sp := P.Pkgs[pkgInterp]
	if sp == nil {
		return nil, nil, nil
	}
	runnerObj := sp.Pkg.Scope().Lookup("Runner")
	if runnerObj == nil {
		return []*Obligation{{Name: "interp#opts-mirrored@Runner", Kind: "opts-mirrored", Backend: "structural", Detail: "type Runner not found"}}, nil, nil
	}
	runnerT := runnerObj.Type()
	rst, _ := runnerT.Underlying().(*types.Struct)
	optsIdx := -1
	if rst != nil {
		for i := 0; i < rst.NumFields(); i++ {
			if rst.Field(i).Name() == "opts" {
				optsIdx = i
			}
		}
	}
	if optsIdx < 0 {
		return []*Obligation{{Name: "interp#opts-mirrored@Runner.opts", Kind: "opts-mirrored", Backend: "structural", Detail: "field Runner.opts not found"}}, nil, nil
	}
	// all functions of the package, anonymous ones included
	var fns []*ssa.Function
	var add func(f *ssa.Function)
	seenFn := map[*ssa.Function]bool{}
	add = func(f *ssa.Function) {
		if f == nil || seenFn[f] || f.Blocks == nil {
			return
		}
		seenFn[f] = true
		fns = append(fns, f)
		for _, a := range f.AnonFuncs {
			add(a)
		}
	}
	for _, m := range sp.Members {
		switch x := m.(type) {
		case *ssa.Function:
			add(x)
		case *ssa.Type:
			for _, t := range []types.Type{x.Type(), types.NewPointer(x.Type())} {
				ms := P.Prog.MethodSets.MethodSet(t)
				for i := 0; i < ms.Len(); i++ {
					add(P.Prog.MethodValue(ms.At(i)))
				}
			}
		}
	}
	sort.Slice(fns, func(i, j int) bool { return funcKey(fns[i]) < funcKey(fns[j]) })
	var updater *ssa.Function
	for _, f := range fns {
		if funcKey(f) == pkgInterp+".Runner.updateExpandOpts" {
			updater = f
		}
	}
	if updater == nil {
		return []*Obligation{{Name: "interp#opts-mirrored@Runner.updateExpandOpts", Kind: "opts-mirrored", Backend: "structural", Detail: "Runner.updateExpandOpts not found"}}, nil, nil
	}
	isRunnerPtr := func(t types.Type) bool {
		p, ok := t.Underlying().(*types.Pointer)
		return ok && types.Identical(p.Elem(), runnerT)
	}
	isRunnerOption := func(t types.Type) bool {
		sig, ok := t.Underlying().(*types.Signature)
		if !ok || sig.Params().Len() != 1 || sig.Results().Len() != 1 {
			return false
		}
		return isRunnerPtr(sig.Params().At(0).Type()) && types.Identical(sig.Results().At(0).Type(), types.Universe.Lookup("error").Type())
	}
	// functions that return an address inside Runner.opts
	returnsPtr := map[*ssa.Function]bool{}
	// optsBase: the *Runner value whose field opts the address v lies in (nil: not such an address)
	var optsBase func(v ssa.Value, depth int) ssa.Value
	optsBase = func(v ssa.Value, depth int) ssa.Value {
		if depth > 8 {
			return nil
		}
		switch x := v.(type) {
		case *ssa.FieldAddr:
			if x.Field == optsIdx && isRunnerPtr(x.X.Type()) {
				return x.X
			}
			return optsBase(x.X, depth+1)
		case *ssa.IndexAddr:
			return optsBase(x.X, depth+1)
		case *ssa.Phi:
			for _, e := range x.Edges {
				if b := optsBase(e, depth+1); b != nil {
					return b
				}
			}
		case *ssa.Extract:
			return optsBase(x.Tuple, depth+1)
		case *ssa.Call:
			if callee := x.Common().StaticCallee(); callee != nil && returnsPtr[callee] && len(x.Common().Args) > 0 && isRunnerPtr(x.Common().Args[0].Type()) {
				return x.Common().Args[0]
			}
		case *ssa.ChangeType:
			return optsBase(x.X, depth+1)
		case *ssa.UnOp:
			// a pointer loaded from a local variable that holds such an address
			if al, ok := x.X.(*ssa.Alloc); ok {
				if refs := al.Referrers(); refs != nil {
					for _, r := range *refs {
						if st, ok := r.(*ssa.Store); ok && st.Addr == al {
							if b := optsBase(st.Val, depth+1); b != nil {
								return b
							}
						}
					}
				}
			}
		}
		return nil
	}
	optsPtr := func(v ssa.Value, depth int) bool { return optsBase(v, depth) != nil }
	// isSelf: v is the runner the function works for: its *Runner receiver or parameter, or (in a closure) the captured one.
	// Another runner (a new one from New, a subshell copy) has a configuration of its own, refreshed before it runs.
	var isSelf func(v ssa.Value, depth int) bool
	isSelf = func(v ssa.Value, depth int) bool {
		if depth > 6 {
			return false
		}
		switch x := v.(type) {
		case *ssa.Parameter:
			return isRunnerPtr(x.Type())
		case *ssa.FreeVar:
			return true
		case *ssa.UnOp:
			return isSelf(x.X, depth+1)
		case *ssa.Phi:
			for _, e := range x.Edges {
				if !isSelf(e, depth+1) {
					return false
				}
			}
			return len(x.Edges) > 0
		case *ssa.Alloc:
			// a local variable holding the receiver (e.g. captured by a closure)
			if isRunnerPtr(x.Type()) {
				return false
			}
			if refs := x.Referrers(); refs != nil {
				ok := false
				for _, r := range *refs {
					if st, isStore := r.(*ssa.Store); isStore && st.Addr == x {
						if !isSelf(st.Val, depth+1) {
							return false
						}
						ok = true
					}
				}
				return ok
			}
		}
		return false
	}
	for changed := true; changed; {
		changed = false
		for _, f := range fns {
			if returnsPtr[f] {
				continue
			}
			for _, b := range f.Blocks {
				for _, ins := range b.Instrs {
					if r, ok := ins.(*ssa.Return); ok {
						for _, res := range r.Results {
							if _, isPtr := res.Type().Underlying().(*types.Pointer); isPtr && optsPtr(res, 0) {
								returnsPtr[f] = true
								changed = true
							}
						}
					}
				}
			}
		}
	}
	exemptWhy := func(f *ssa.Function) string {
		k := strings.TrimPrefix(funcKey(f), pkgInterp+".")
		if k == "New" || k == "Runner.Reset" {
			return "configuration time: Run refreshes the copy after Reset and before running (obligation on Runner.Run)"
		}
		if k == "Runner.subshell" {
			return "its call of Reset is guarded by !r.didReset: only for a runner that has not run yet, and Run refreshes the copy before running"
		}
		if f.Parent() != nil && isRunnerOption(f.Signature) {
			return "a RunnerOption: applied by New, or by the set builtin whose own obligation covers the call"
		}
		return ""
	}
	info := map[*ssa.Function]*mirrorInfo{}
	for _, f := range fns {
		info[f] = &mirrorInfo{}
	}
	info[updater].cleaner = true
	// analyse runs the must-analysis of one function; entryStale is the state at entry
	analyse := func(f *ssa.Function, entryStale bool) (hasWrite bool, staleReturn string) {
		in := make([]bool, len(f.Blocks))
		out := make([]bool, len(f.Blocks))
		transfer := func(b *ssa.BasicBlock, stale bool, record bool) bool {
			for _, ins := range b.Instrs {
				switch x := ins.(type) {
				case *ssa.Store:
					if b := optsBase(x.Addr, 0); b != nil && isSelf(b, 0) {
						stale = true
						hasWrite = true
					} else if isRunnerPtr(x.Addr.Type()) && isSelf(x.Addr, 0) {
						// the whole Runner is assigned (*r = Runner{...})
						stale = true
						hasWrite = true
					}
				case ssa.CallInstruction:
					if _, isDefer := x.(*ssa.Defer); isDefer {
						continue
					}
					if _, isGo := x.(*ssa.Go); isGo {
						continue
					}
					com := x.Common()
					callee := com.StaticCallee()
					if callee == nil {
						if mc, ok := com.Value.(*ssa.MakeClosure); ok {
							callee, _ = mc.Fn.(*ssa.Function)
						}
					}
					// the runner the callee works for is this function's runner
					onSelf := len(com.Args) > 0 && isRunnerPtr(com.Args[0].Type()) && isSelf(com.Args[0], 0)
					if callee != nil && callee.Parent() != nil {
						onSelf = true // a closure of this package: it captured the runner it works for
					}
					switch {
					case !onSelf:
					case callee != nil && info[callee] != nil:
						ci := info[callee]
						if ci.cleaner {
							stale = false
						} else if ci.staleReturn != "" && exemptWhy(callee) != "" && !strings.HasSuffix(funcKey(callee), ".Runner.subshell") {
							// (a stale return of a function that is not exempt is reported there, not again in its callers)
							stale = true
							hasWrite = true
						}
					case callee == nil && !com.IsInvoke() && isRunnerOption(com.Value.Type()):
						stale = true
						hasWrite = true
					}
				case *ssa.Return:
					if stale && record && staleReturn == "" {
						staleReturn = P.Prog.Fset.Position(x.Pos()).String()
						if !x.Pos().IsValid() {
							staleReturn = "end of " + f.Name()
						}
					}
				}
			}
			return stale
		}
		if len(f.Blocks) == 0 {
			return
		}
		in[0] = entryStale
		for changed := true; changed; {
			changed = false
			for _, b := range f.Blocks {
				s := in[b.Index]
				for _, p := range b.Preds {
					if out[p.Index] {
						s = true
					}
				}
				if b.Index == 0 && entryStale {
					s = true
				}
				o := transfer(b, s, false)
				if s != in[b.Index] || o != out[b.Index] {
					in[b.Index], out[b.Index] = s, o
					changed = true
				}
			}
		}
		for _, b := range f.Blocks {
			transfer(b, in[b.Index], true)
		}
		return
	}
	for round := 0; round < 12; round++ {
		changed := false
		for _, f := range fns {
			if f == updater {
				continue
			}
			hw, sr := analyse(f, false)
			_, srDirty := analyse(f, true)
			cl := srDirty == "" && hasReturn(f)
			fi := info[f]
			if fi.hasWrite != hw || fi.staleReturn != sr || fi.cleaner != cl {
				fi.hasWrite, fi.staleReturn, fi.cleaner = hw, sr, cl
				changed = true
			}
		}
		if !changed {
			break
		}
	}
	var obls []*Obligation
	var funcs []string
	sawRun := false
	for _, f := range fns {
		fi := info[f]
		k := strings.TrimPrefix(funcKey(f), pkgInterp+".")
		if k == "Runner.Run" {
			sawRun = true
		}
		if !fi.hasWrite && k != "Runner.Run" {
			continue
		}
		o := &Obligation{Name: "interp#opts-mirrored@" + k, Func: "interp." + k, Kind: "opts-mirrored", Backend: "structural",
			Pos:   P.Prog.Fset.Position(f.Pos()).String(),
			Descr: "after a write of Runner.opts every return is preceded by updateExpandOpts (the expansion configuration mirrors the options)"}
		switch why := exemptWhy(f); {
		case fi.staleReturn == "":
			o.OK = true
		case why != "":
			o.OK = true
			o.Detail = "exempt: " + why
		default:
			o.Detail = fmt.Sprintf("a return at %s is reachable after a write of Runner.opts without a call of updateExpandOpts: the options copied into the expansion configuration stay stale until the next Run", fi.staleReturn)
		}
		obls = append(obls, o)
		funcs = append(funcs, "interp."+k)
	}
	if !sawRun {
		obls = append(obls, &Obligation{Name: "interp#opts-mirrored@Runner.Run", Kind: "opts-mirrored", Backend: "structural", Detail: "Runner.Run not found"})
	}
	obls = append(obls, &Obligation{Name: "interp#opts-mirrored@writers-found", Kind: "opts-mirrored", Backend: "structural", OK: len(obls) >= 3,
		Descr: "the analysis found the writers of Runner.opts (vacuity guard)", Detail: fmt.Sprintf("%d functions", len(obls))})
	return obls, funcs, []string{"Runner.opts is only written through addresses derived from the field in package interp (no reflection, no unsafe); handlers and other dynamic callees cannot name the unexported field"}
}

func hasReturn(f *ssa.Function) bool {
	for _, b := range f.Blocks {
		for _, ins := range b.Instrs {
			if _, ok := ins.(*ssa.Return); ok {
				return true
			}
		}
	}
	return false
}
