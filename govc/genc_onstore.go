package main

import (
	"fmt"
	"go/types"
	"regexp"
	"sort"
	"strings"

	"golang.org/x/tools/go/ssa"
)

// Generator C (onstore coverage): an object invariant (objinv) over fields of a struct type is only sound if every
// function of the package that writes those fields is under a contract with an onstore obligation for them. For every
// onstore target `T.f` that a contract counting for the property names, every Store in the package whose address is the
// field f of a T (or a store of a whole T value into a field `S.g`, named `S.g`) must lie in a function whose own
// contract has an onstore clause for that target. One obligation per (function, target).
// Whole-struct stores of an enclosing type (a composite literal of S) are not traced into; the C30 Reset contract
// covers the one such writer of Runner.

func init() {
	for _, p := range []string{"C28"} {
		prop := p
		propGens[prop] = append(propGens[prop], func(P *Program, CS *ContractSet, tier string) ([]*Obligation, []string, []string) {
			return genOnStoreCoverage(P, CS, prop)
		})
	}
}

func genOnStoreCoverage(P *Program, CS *ContractSet, prop string) ([]*Obligation, []string, []string) {
	// targets per package
	type key struct{ pkg, target string }
	want := map[key]bool{}
	has := map[string]map[string]bool{} // contract key -> targets
	for k, ct := range CS.Funcs {
		counts := false
		for _, p := range ct.Props {
			if p == prop {
				counts = true
			}
		}
		for _, oc := range ct.OnStore {
			if has[k] == nil {
				has[k] = map[string]bool{}
			}
			has[k][oc.Target] = true
			if counts && strings.Contains(oc.Target, ".") {
				want[key{ct.Pkg, oc.Target}] = true
			}
		}
	}
	// coverage is what justifies an object invariant that is *relied on*: targets whose field no objinv clause (other than
	// an assumed astinv) mentions are plain obligations about the stores of the function that carries them
	var invTexts []string
	for _, ct := range CS.Funcs {
		for _, ti := range ct.TypeInv {
			if !ti.Assumed {
				invTexts = append(invTexts, ti.Clause.Text)
			}
		}
		for _, c := range ct.ObjInv {
			invTexts = append(invTexts, c.Text)
		}
	}
	for k := range want {
		field := k.target[strings.LastIndex(k.target, ".")+1:]
		re := regexp.MustCompile(`\b` + regexp.QuoteMeta(field) + `\b`)
		relied := false
		for _, t := range invTexts {
			if re.MatchString(t) {
				relied = true
			}
		}
		if !relied {
			delete(want, k)
		}
	}
	var obls []*Obligation
	var keys []key
	for k := range want {
		keys = append(keys, k)
	}
	sort.Slice(keys, func(i, j int) bool { return keys[i].pkg+keys[i].target < keys[j].pkg+keys[j].target })
	for _, k := range keys {
		sp := P.Pkgs[k.pkg]
		if sp == nil {
			continue
		}
		writers := map[string]bool{}
		var visit func(fn *ssa.Function)
		visit = func(fn *ssa.Function) {
			for _, b := range fn.Blocks {
				for _, ins := range b.Instrs {
					st, ok := ins.(*ssa.Store)
					if !ok {
						continue
					}
					fa, ok := st.Addr.(*ssa.FieldAddr)
					if !ok {
						continue
					}
					stt, ok := derefType(fa.X.Type()).Underlying().(*types.Struct)
					if !ok {
						continue
					}
					n, ok := types.Unalias(derefType(fa.X.Type())).(*types.Named)
					if !ok {
						continue
					}
					if n.Obj().Name()+"."+stt.Field(fa.Field).Name() == k.target {
						root := fn
						for root.Parent() != nil {
							root = root.Parent()
						}
						writers[funcKey(fn)] = true
						_ = root
					}
				}
			}
			for _, af := range fn.AnonFuncs {
				visit(af)
			}
		}
		for _, m := range sp.Members {
			switch x := m.(type) {
			case *ssa.Function:
				visit(x)
			case *ssa.Type:
				for _, T := range []types.Type{x.Type(), types.NewPointer(x.Type())} {
					ms := P.Prog.MethodSets.MethodSet(T)
					for i := 0; i < ms.Len(); i++ {
						if f := P.Prog.MethodValue(ms.At(i)); f != nil && f.Pkg == sp && f.Synthetic == "" {
							visit(f)
						}
					}
				}
			}
		}
		var ws []string
		for w := range writers {
			ws = append(ws, w)
		}
		sort.Strings(ws)
		for _, w := range ws {
			o := &Obligation{Name: fmt.Sprintf("%s#onstore-coverage@%s:%s", strings.TrimPrefix(k.pkg, "mvdan.cc/sh/v3/"), shortKey(w), k.target), Func: shortKey(w), Kind: "onstore-coverage", Backend: "structural",
				Descr: "every function that writes " + k.target + " has an onstore obligation for it (the object invariant over that field is assumed elsewhere)"}
			if has[w][k.target] {
				o.OK = true
			} else {
				o.Detail = "this function writes the field but its contract has no onstore clause for it"
			}
			obls = append(obls, o)
		}
	}
	return obls, nil, nil
}
