package main

import (
	"fmt"
	"go/constant"
	"go/token"
	"go/types"
	"os"
	"sort"
	"strings"

	"golang.org/x/tools/go/ssa"
)

// Generator C for C11, clause "a program accepted in POSIX mode contains no Bash, mksh or Zsh-only construct".
//
// A *construct site* is an instruction of package syntax that builds one of the non-POSIX constructs the property
// lists: the allocation of a TestClause, ArithmCmd, ArrayExpr, ProcSubst, ExtGlob, LetClause, DeclClause,
// CoprocClause, TimeClause, CStyleLoop, TestDecl node, or a store of something other than the zero value into
// SglQuoted.Dollar, DblQuoted.Dollar, ForClause.Select, FuncDecl.RsrvWord, ParamExp.{Excl,Width,IsSet,Index,Slice,Repl,
// Names,Flags,Modifiers}, Assign.Array.
//
// A program point is *gated* when every path from the entry of the parser to it has passed a language test that POSIX
// fails: the true outcome of p.lang.in(S) or the return of p.checkLang(pos, S, ...) with LangPOSIX not in S (checkLang
// raises an error otherwise, so the input is not accepted), the true outcome of a predicate of the package that only
// returns true at gated points, or the test of p.tok against a token that the lexer only produces at gated points.
// Inside a function, gatedness is a must-dataflow over the go/ssa control-flow graph; a function whose every call
// site in the package is gated starts gated (greatest fixpoint over the call graph; functions that escape as values
// or are exported entry points do not). The obligation for every construct site: it is gated.
//
// This is a sufficient condition. A site that is flagged is either a genuine way for POSIX mode to accept the
// construct, or a gate the analysis does not recognise; both were looked at one by one (DESIGN I.7/I.8).

func init() {
	propGens["C11"] = append(propGens["C11"], genPosixGate)
}

var posixConstructTypes = map[string]bool{
	"TestClause": true, "ArithmCmd": true, "ArrayExpr": true, "ProcSubst": true, "ExtGlob": true, "LetClause": true,
	"DeclClause": true, "CoprocClause": true, "TimeClause": true, "CStyleLoop": true, "TestDecl": true,
}

var posixConstructFields = map[string]bool{
	"SglQuoted.Dollar": true, "DblQuoted.Dollar": true, "ForClause.Select": true, "FuncDecl.RsrvWord": true,
	"ParamExp.Excl": true, "ParamExp.Width": true, "ParamExp.IsSet": true, "ParamExp.Index": true, "ParamExp.Slice": true,
	"ParamExp.Repl": true, "ParamExp.Names": true, "ParamExp.Flags": true, "ParamExp.Modifiers": true,
	"Assign.Array": true,
	// not in the table (their gate is not a test this analysis can see): Assign.Index / Assign.Append in `a[i]=v`
	// (outside POSIX the lexer ends a literal at '[', in POSIX it does not, so getAssign's index branch is never
	// entered there), ParamExp.NestedParam (the nested-start helper returns a usable token only after its own
	// checkLang; the other outcome raises an error in the caller).
}

type posixGate struct {
	P        *Program
	posix    int64
	fns      []*ssa.Function
	entry    map[*ssa.Function]bool // function starts gated
	truePred map[*ssa.Function]bool // bool function: returns true only at gated points
	gatedTok map[int64]bool         // token constants only produced at gated points
	callers  map[*ssa.Function][]ssa.Instruction
	escapes  map[*ssa.Function]bool
	tokType  types.Type
	errSet   map[*ssa.Function]bool // functions that raise a parse error on every path (the input is then rejected)
}

func isZeroConst(v ssa.Value) bool {
	c, ok := v.(*ssa.Const)
	if !ok {
		return false
	}
	if c.Value == nil {
		return true // nil / zero
	}
	switch c.Value.Kind() {
	case constant.Bool:
		return !constant.BoolVal(c.Value)
	case constant.Int:
		n, _ := constant.Int64Val(c.Value)
		return n == 0
	case constant.String:
		return constant.StringVal(c.Value) == ""
	}
	return false
}

// excludesPOSIX: the constant language set does not contain LangPOSIX.
func (g *posixGate) excludesPOSIX(v ssa.Value) bool {
	c, ok := v.(*ssa.Const)
	if !ok || c.Value == nil {
		return false
	}
	n, ok := constant.Int64Val(constant.ToInt(c.Value))
	return ok && n&g.posix == 0
}

// gateCall: a call after which (checkLang) or on whose true outcome (lang.in, true-predicates) POSIX is excluded.
func (g *posixGate) isCheckLang(ins ssa.Instruction) bool {
	c, ok := ins.(*ssa.Call)
	if !ok {
		return false
	}
	f := c.Call.StaticCallee()
	if f != nil && g.errSet[f] {
		return true // an error is raised: whatever is built afterwards is not part of an accepted program
	}
	if f == nil || f.Name() != "checkLang" || len(c.Call.Args) < 3 {
		return false
	}
	return g.excludesPOSIX(c.Call.Args[2])
}

// condGate: for a branch condition, which outcome (true/false) implies the gate. Returns (onTrue, onFalse).
func (g *posixGate) condGate(v ssa.Value, depth int) (bool, bool) {
	if depth > 6 {
		return false, false
	}
	switch x := v.(type) {
	case *ssa.Call:
		f := x.Call.StaticCallee()
		if f == nil {
			return false, false
		}
		if f.Name() == "in" && len(x.Call.Args) == 2 && isLangVariant(x.Call.Args[0].Type()) {
			// p.lang.in(S): receiver must be the parser's language (a load of the lang field), S constant without POSIX
			if g.excludesPOSIX(x.Call.Args[1]) && g.isParserLang(x.Call.Args[0]) {
				return true, false
			}
			return false, false
		}
		if g.truePred[f] {
			return true, false
		}
	case *ssa.UnOp:
		if x.Op == token.NOT {
			t, f := g.condGate(x.X, depth+1)
			return f, t
		}
	case *ssa.BinOp:
		if x.Op == token.EQL || x.Op == token.NEQ {
			// p.tok == c for a gated token (either operand order)
			for _, pair := range [][2]ssa.Value{{x.X, x.Y}, {x.Y, x.X}} {
				if c, ok := pair[1].(*ssa.Const); ok && c.Value != nil && g.isTokLoad(pair[0]) {
					if n, ok := constant.Int64Val(constant.ToInt(c.Value)); ok && g.gatedTok[n] {
						if x.Op == token.EQL {
							return true, false
						}
						return false, true
					}
				}
			}
		}
	case *ssa.Phi:
		// a short-circuit && yields a phi of (false, cond): true implies every true-capable operand's gate
		allTrue := true
		for _, e := range x.Edges {
			if c, ok := e.(*ssa.Const); ok && c.Value != nil && c.Value.Kind() == constant.Bool && !constant.BoolVal(c.Value) {
				continue
			}
			t, _ := g.condGate(e, depth+1)
			if !t {
				allTrue = false
			}
		}
		return allTrue && len(x.Edges) > 0, false
	}
	return false, false
}

func (g *posixGate) isParserLang(v ssa.Value) bool {
	u, ok := v.(*ssa.UnOp)
	if !ok || u.Op != token.MUL {
		return false
	}
	fa, ok := u.X.(*ssa.FieldAddr)
	if !ok {
		return false
	}
	st, ok := derefType(fa.X.Type()).Underlying().(*types.Struct)
	return ok && st.Field(fa.Field).Name() == "lang"
}

func (g *posixGate) isTokLoad(v ssa.Value) bool {
	switch x := v.(type) {
	case *ssa.UnOp:
		if x.Op != token.MUL {
			return false
		}
		fa, ok := x.X.(*ssa.FieldAddr)
		if !ok {
			return false
		}
		st, ok := derefType(fa.X.Type()).Underlying().(*types.Struct)
		return ok && st.Field(fa.Field).Name() == "tok"
	case *ssa.Convert:
		return g.isTokLoad(x.X)
	case *ssa.ChangeType:
		return g.isTokLoad(x.X)
	}
	return false
}

// blockGates computes, for every block of f, whether its entry is gated, given whether the function entry is.
func (g *posixGate) blockGates(f *ssa.Function, entryGated bool) map[*ssa.BasicBlock]bool {
	in := map[*ssa.BasicBlock]bool{}
	for _, b := range f.Blocks {
		in[b] = true // greatest fixpoint
	}
	if len(f.Blocks) == 0 {
		return in
	}
	in[f.Blocks[0]] = entryGated
	outOf := func(b *ssa.BasicBlock) bool {
		if in[b] {
			return true
		}
		for _, ins := range b.Instrs {
			if g.isCheckLang(ins) {
				return true
			}
		}
		return false
	}
	edge := func(p, s *ssa.BasicBlock) bool {
		if outOf(p) {
			return true
		}
		if iff, ok := p.Instrs[len(p.Instrs)-1].(*ssa.If); ok && len(p.Succs) == 2 {
			t, fl := g.condGate(iff.Cond, 0)
			if p.Succs[0] == s && p.Succs[1] != s {
				return t
			}
			if p.Succs[1] == s && p.Succs[0] != s {
				return fl
			}
		}
		return false
	}
	changed := true
	for changed {
		changed = false
		for i, b := range f.Blocks {
			if i == 0 {
				continue
			}
			v := len(b.Preds) > 0
			for _, p := range b.Preds {
				if !edge(p, b) {
					v = false
				}
			}
			if v != in[b] {
				in[b] = v
				changed = true
			}
		}
	}
	return in
}

// gatedAt: the instruction is at a gated point (block entry gated, or a checkLang earlier in the block).
func (g *posixGate) gatedAt(f *ssa.Function, in map[*ssa.BasicBlock]bool, ins ssa.Instruction) bool {
	b := ins.Block()
	if in[b] {
		return true
	}
	for _, x := range b.Instrs {
		if x == ins {
			return false
		}
		if g.isCheckLang(x) {
			return true
		}
	}
	return false
}

func genPosixGate(P *Program, CS *ContractSet, tier string) ([]*Obligation, []string, []string) {
	posix, ok := langConst(P, "LangPOSIX")
	if !ok {
		return []*Obligation{structOb("syntax#posix-gate@constants", "structural", false, "LangPOSIX not found", "")}, nil, nil
	}
	g := &posixGate{P: P, posix: posix, fns: pkgFunctions(P, syntaxPkg), entry: map[*ssa.Function]bool{}, truePred: map[*ssa.Function]bool{},
		gatedTok: map[int64]bool{}, callers: map[*ssa.Function][]ssa.Instruction{}, escapes: map[*ssa.Function]bool{}}
	sp := P.Pkgs[syntaxPkg]
	g.errSet = map[*ssa.Function]bool{}
	for _, f := range g.fns {
		if shortFuncName(f) == "syntax.Parser.errPass" {
			g.errSet[f] = errPassShape(f)
		}
	}
	for changed := true; changed; {
		changed = false
		for _, f := range g.fns {
			if !g.errSet[f] && len(f.Blocks) > 0 && mustCall(f, f.Blocks[0], 0, g.errSet) {
				g.errSet[f] = true
				changed = true
			}
		}
	}
	if tn, ok := sp.Pkg.Scope().Lookup("token").(*types.TypeName); ok {
		g.tokType = tn.Type()
	}
	// only the parser side: functions that belong to Parser (methods and their closures) and package helpers they call
	inScope := func(f *ssa.Function) bool {
		root := f
		for root.Parent() != nil {
			root = root.Parent()
		}
		if recv := root.Signature.Recv(); recv != nil {
			t := recv.Type()
			if p, ok := t.(*types.Pointer); ok {
				t = p.Elem()
			}
			if n, ok := t.(*types.Named); ok && n.Obj().Name() == "Parser" {
				return true
			}
		}
		return false
	}
	var fns []*ssa.Function
	for _, f := range g.fns {
		if inScope(f) {
			fns = append(fns, f)
		}
	}
	fnSet := map[*ssa.Function]bool{}
	for _, f := range fns {
		fnSet[f] = true
	}
	// call graph (static calls) and escapes (function used as a value other than in call position)
	for _, f := range fns {
		for _, b := range f.Blocks {
			for _, ins := range b.Instrs {
				if c, ok := ins.(ssa.CallInstruction); ok {
					if callee := c.Common().StaticCallee(); callee != nil && fnSet[callee] {
						g.callers[callee] = append(g.callers[callee], ins)
					}
				}
				var ops []*ssa.Value
				for _, op := range ins.Operands(ops) {
					if op == nil || *op == nil {
						continue
					}
					var fv *ssa.Function
					switch v := (*op).(type) {
					case *ssa.Function:
						fv = v
					case *ssa.MakeClosure:
						fv, _ = v.Fn.(*ssa.Function)
					}
					if fv != nil && !fnSet[fv] && fv.Synthetic != "" {
						// a bound-method closure or thunk (p.method passed as a value): the method itself escapes
						if tf, ok := fv.Object().(*types.Func); ok {
							if real := P.Prog.FuncValue(tf); real != nil && fnSet[real] {
								g.escapes[real] = true
							}
						}
						continue
					}
					if fv == nil || !fnSet[fv] {
						continue
					}
					if c, ok := ins.(ssa.CallInstruction); ok && c.Common().Value == *op {
						continue // call position
					}
					if _, isMC := ins.(*ssa.MakeClosure); isMC {
						continue // the closure object itself is created here; its uses are seen separately
					}
					g.escapes[fv] = true
				}
			}
		}
	}
	// exported methods of Parser are entry points
	for _, f := range fns {
		if f.Parent() == nil && token.IsExported(f.Name()) {
			g.escapes[f] = true
		}
	}
	// initial (optimistic) assumptions for the greatest fixpoint
	for _, f := range fns {
		g.entry[f] = !g.escapes[f] && len(g.callers[f]) > 0
		if f.Signature.Results().Len() == 1 {
			if bt, ok := f.Signature.Results().At(0).Type().Underlying().(*types.Basic); ok && bt.Kind() == types.Bool {
				g.truePred[f] = true
			}
		}
	}
	tokenConsts := map[int64]string{}
	for _, n := range sp.Pkg.Scope().Names() {
		if c, ok := sp.Pkg.Scope().Lookup(n).(*types.Const); ok && g.tokType != nil && types.Identical(c.Type(), g.tokType) {
			if v, ok := constant.Int64Val(c.Val()); ok {
				tokenConsts[v] = n
				g.gatedTok[v] = true
			}
		}
	}
	isTokenTyped := func(t types.Type) bool { return g.tokType != nil && types.Identical(t, g.tokType) }
	for iter := 0; iter < 30; iter++ {
		changed := false
		gates := map[*ssa.Function]map[*ssa.BasicBlock]bool{}
		for _, f := range fns {
			gates[f] = g.blockGates(f, g.entry[f])
		}
		// entry gating from call sites
		for _, f := range fns {
			if !g.entry[f] {
				continue
			}
			for _, site := range g.callers[f] {
				cf := site.Parent()
				if !g.gatedAt(cf, gates[cf], site) {
					g.entry[f] = false
					changed = true
					break
				}
			}
		}
		// true-predicates: every return that may yield true is gated
		for _, f := range fns {
			if !g.truePred[f] {
				continue
			}
			for _, b := range f.Blocks {
				ret, ok := b.Instrs[len(b.Instrs)-1].(*ssa.Return)
				if !ok {
					continue
				}
				r := ret.Results[0]
				if c, ok := r.(*ssa.Const); ok && c.Value != nil && c.Value.Kind() == constant.Bool && !constant.BoolVal(c.Value) {
					continue
				}
				if g.gatedAt(f, gates[f], ret) {
					continue
				}
				// a returned condition that is itself a gate on its true outcome
				if t, _ := g.condGate(r, 0); t {
					continue
				}
				g.truePred[f] = false
				changed = true
				break
			}
		}
		// gated tokens: every production site (return of a token constant, store of one to a tok field) is gated
		for _, f := range fns {
			for _, b := range f.Blocks {
				for _, ins := range b.Instrs {
					var produced []ssa.Value
					switch x := ins.(type) {
					case *ssa.Return:
						for _, r := range x.Results {
							if isTokenTyped(r.Type()) {
								produced = append(produced, r)
							}
						}
					case *ssa.Store:
						if isTokenTyped(x.Val.Type()) {
							produced = append(produced, x.Val)
						}
					}
					for _, pv := range produced {
						var consts []*ssa.Const
						var collect func(v ssa.Value, d int)
						collect = func(v ssa.Value, d int) {
							if d > 4 {
								return
							}
							switch y := v.(type) {
							case *ssa.Const:
								consts = append(consts, y)
							case *ssa.Phi:
								for _, e := range y.Edges {
									collect(e, d+1)
								}
							}
						}
						collect(pv, 0)
						for _, c := range consts {
							if c.Value == nil {
								continue
							}
							n, ok := constant.Int64Val(constant.ToInt(c.Value))
							if !ok || !g.gatedTok[n] {
								continue
							}
							if !g.gatedAt(f, gates[f], ins) {
								g.gatedTok[n] = false
								changed = true
							}
						}
					}
				}
			}
		}
		if !changed {
			break
		}
	}
	if debugPosix != nil {
		debugPosix(g, fns)
	}
	// obligations
	var obls []*Obligation
	occ := map[string]int{}
	nSites := 0
	for _, f := range fns {
		in := g.blockGates(f, g.entry[f])
		for _, b := range f.Blocks {
			for _, ins := range b.Instrs {
				what := ""
				switch x := ins.(type) {
				case *ssa.Alloc:
					if n, ok := types.Unalias(derefType(x.Type())).(*types.Named); ok && posixConstructTypes[n.Obj().Name()] && n.Obj().Pkg() == sp.Pkg {
						what = "new " + n.Obj().Name()
					}
				case *ssa.Store:
					if fa, ok := x.Addr.(*ssa.FieldAddr); ok {
						if n, ok := types.Unalias(derefType(fa.X.Type())).(*types.Named); ok && n.Obj().Pkg() == sp.Pkg {
							if st, ok := n.Underlying().(*types.Struct); ok {
								key := n.Obj().Name() + "." + st.Field(fa.Field).Name()
								if posixConstructFields[key] && !isZeroConst(x.Val) {
									what = key
								}
							}
						}
					}
				}
				if what == "" {
					continue
				}
				nSites++
				base := fmt.Sprintf("syntax#posix-gate@%s:%s", strings.TrimPrefix(shortFuncName(f), "syntax."), strings.ReplaceAll(what, " ", "-"))
				occ[base]++
				name := base
				if occ[base] > 1 {
					name = fmt.Sprintf("%s~%d", base, occ[base])
				}
				ok := g.gatedAt(f, in, ins)
				if st, isStore := ins.(*ssa.Store); isStore && !ok {
					// a boolean that is only true at gated points (p.tok == <gated token>), or a parameter that every
					// ungated caller passes as the zero value
					if t, _ := g.condGate(st.Val, 0); t {
						ok = true
					} else if par, isPar := st.Val.(*ssa.Parameter); isPar && !g.escapes[f] && len(g.callers[f]) > 0 {
						idx := -1
						for i, p := range f.Params {
							if p == par {
								idx = i
							}
						}
						ok = idx >= 0
						for _, site := range g.callers[f] {
							args := site.(ssa.CallInstruction).Common().Args
							cf := site.Parent()
							if idx >= len(args) || !(isZeroConst(args[idx]) || g.gatedAt(cf, g.blockGates(cf, g.entry[cf]), site)) {
								ok = false
							}
						}
					}
				}
				detail := ""
				if !ok {
					detail = "reachable without passing a language test that excludes POSIX: " + srcLine(P, ins.Pos())
				}
				obls = append(obls, structOb(name, "structural", ok, "the construct ("+what+") is only built after a language test that POSIX fails. "+detail, posStr(P, P.Prog.Fset, ins.Pos())))
			}
		}
	}
	if nSites == 0 {
		obls = append(obls, structOb("syntax#posix-gate@sites", "structural", false, "no construct site found: the analysis lost track of the parser", ""))
	}
	var gt []string
	for v, n := range tokenConsts {
		if g.gatedTok[v] {
			gt = append(gt, n)
		}
	}
	sort.Strings(gt)
	return obls, []string{"syntax.Parser.* (POSIX gating of constructs; gated tokens: " + strings.Join(gt, " ") + ")"}, nil
}

func init() {
	debugPosix = func(g *posixGate, fns []*ssa.Function) {
		if os.Getenv("GOVC_DEBUG_POSIX") == "" {
			return
		}
		for _, f := range fns {
			if strings.Contains(f.Name(), "rithm") || strings.Contains(f.Name(), "wordPart") || strings.Contains(f.Name(), "eitherIndex") {
				fmt.Fprintf(os.Stderr, "entry[%s]=%v callers=%d escapes=%v\n", f.Name(), g.entry[f], len(g.callers[f]), g.escapes[f])
			}
		}
	}
}

var debugPosix func(g *posixGate, fns []*ssa.Function)
