package main

import (
	"fmt"
	"go/ast"
	"strings"
)

// Generator C for C20 (parsing clause): the binary-operator precedence chain of the arithmetic parser refines bash's
// operator precedence table. The chain is read from the source: starting at the function that parses the operand of
// the ternary operator (arithmExprTernary's first call), every level must be a function whose body is exactly
// `return p.arithmExprBinary(compact, p.<next level>, <ops...>)`; the sequence of operator sets, from loosest to
// tightest binding, must equal the table below (bash(1), ARITHMETIC EVALUATION, listed there in decreasing precedence):
//
//	||  (and zsh's ^^)   &&   |   ^   &   == !=   < > <= >=   << >>   + -   * / %
//
// followed by the right-associative ** level.

func init() {
	propGens["C20"] = append(propGens["C20"], genPrecedence)
	propPkgs["C20"] = append(propPkgs["C20"], syntaxPkg, pkgExpand)
}

var bashBinaryPrecedence = [][]string{
	{"OrArit", "XorBool"},
	{"AndArit"},
	{"Or"},
	{"Xor"},
	{"And"},
	{"Eql", "Neq"},
	{"Lss", "Gtr", "Leq", "Geq"},
	{"Shl", "Shr"},
	{"Add", "Sub"},
	{"Mul", "Quo", "Rem"},
}

// binaryLevel recognises `return p.arithmExprBinary(compact, p.NEXT, OPS...)`.
func binaryLevel(fd *ast.FuncDecl) (next string, ops []string, ok bool) {
	if fd == nil || fd.Body == nil || len(fd.Body.List) != 1 {
		return "", nil, false
	}
	ret, isRet := fd.Body.List[0].(*ast.ReturnStmt)
	if !isRet || len(ret.Results) != 1 {
		return "", nil, false
	}
	call, isCall := ret.Results[0].(*ast.CallExpr)
	if !isCall || len(call.Args) < 3 {
		return "", nil, false
	}
	sel, isSel := call.Fun.(*ast.SelectorExpr)
	if !isSel || sel.Sel.Name != "arithmExprBinary" {
		return "", nil, false
	}
	nsel, isSel2 := call.Args[1].(*ast.SelectorExpr)
	if !isSel2 {
		return "", nil, false
	}
	for _, a := range call.Args[2:] {
		id, isID := a.(*ast.Ident)
		if !isID {
			return "", nil, false
		}
		ops = append(ops, id.Name)
	}
	return nsel.Sel.Name, ops, true
}

func genPrecedence(P *Program, CS *ContractSet, tier string) ([]*Obligation, []string, []string) {
	var obls []*Obligation
	tern, fset := findMethodDecl(P, syntaxPkg, "Parser", "arithmExprTernary")
	if tern == nil {
		return []*Obligation{structOb("syntax.Parser.arithmExpr#precedence@chain-start", "structural", false, "arithmExprTernary not found", "")}, nil, nil
	}
	// first statement: value := p.<lowest binary level>(compact)
	start := ""
	if len(tern.Body.List) > 0 {
		if as, ok := tern.Body.List[0].(*ast.AssignStmt); ok && len(as.Rhs) == 1 {
			if call, ok := as.Rhs[0].(*ast.CallExpr); ok {
				if sel, ok := call.Fun.(*ast.SelectorExpr); ok {
					start = sel.Sel.Name
				}
			}
		}
	}
	obls = append(obls, structOb("syntax.Parser.arithmExpr#precedence@chain-start", "structural", start != "",
		"the ternary level parses its condition with the loosest binary level ("+start+")", posStr(P, fset, tern.Pos())))
	cur := start
	for i, want := range bashBinaryPrecedence {
		fd, _ := findMethodDecl(P, syntaxPkg, "Parser", cur)
		next, ops, ok := binaryLevel(fd)
		pos := ""
		if fd != nil {
			pos = posStr(P, fset, fd.Pos())
		}
		same := ok && len(ops) == len(want)
		if same {
			have := map[string]bool{}
			for _, o := range ops {
				have[o] = true
			}
			for _, w := range want {
				if !have[w] {
					same = false
				}
			}
		}
		obls = append(obls, structOb(fmt.Sprintf("syntax.Parser.arithmExpr#precedence@level%d.%s", i+1, strings.Join(want, "+")), "structural", same,
			fmt.Sprintf("precedence level %d (from loosest) of the arithmetic parser handles exactly the operators {%s}; function %s handles {%s}",
				i+1, strings.Join(want, ","), cur, strings.Join(ops, ",")), pos))
		if !ok {
			break
		}
		cur = next
	}
	// the level after * / % is the right-associative power level, which parses its operand with the unary level
	fd, _ := findMethodDecl(P, syntaxPkg, "Parser", cur)
	okPow := false
	detail := "function " + cur
	if fd != nil && fd.Body != nil {
		src := ""
		ast.Inspect(fd.Body, func(n ast.Node) bool {
			if id, ok := n.(*ast.Ident); ok && id.Name == "Pow" {
				src = "Pow"
			}
			return true
		})
		recursive := false
		ast.Inspect(fd.Body, func(n ast.Node) bool {
			if sel, ok := n.(*ast.SelectorExpr); ok && sel.Sel.Name == cur {
				recursive = true
			}
			return true
		})
		okPow = src == "Pow" && recursive
	}
	obls = append(obls, structOb("syntax.Parser.arithmExpr#precedence@power-level", "structural", okPow,
		"the tightest binary level is the right-associative ** level (tests for Pow and recurses into itself for the right operand); "+detail, ""))
	// The power level's operands: the left one is parsed by the unary level (bash: unary - + ! ~ bind tighter than **,
	// so -2**2 is (-2)**2); the unary level parses its own operand with itself and otherwise falls to the value level.
	unary := firstAssignedCall(fd)
	obls = append(obls, structOb("syntax.Parser.arithmExpr#precedence@power-operand", "structural", unary != "" && unary != cur,
		"the ** level parses its left operand with the next tighter level ("+unary+")", ""))
	ufd, _ := findMethodDecl(P, syntaxPkg, "Parser", unary)
	okOps, okRec, valueLevel := false, false, ""
	if ufd != nil && ufd.Body != nil {
		var caseOps []string
		ast.Inspect(ufd.Body, func(n ast.Node) bool {
			if cc, ok := n.(*ast.CaseClause); ok {
				for _, x := range cc.List {
					if id, ok := x.(*ast.Ident); ok {
						caseOps = append(caseOps, id.Name)
					}
				}
				// the operand of a prefix operator is parsed by the unary level itself
				ast.Inspect(cc, func(m ast.Node) bool {
					if as, ok := m.(*ast.AssignStmt); ok && len(as.Rhs) == 1 {
						if call, ok := as.Rhs[0].(*ast.CallExpr); ok {
							if sel, ok := call.Fun.(*ast.SelectorExpr); ok && sel.Sel.Name == unary {
								if lhs, ok := as.Lhs[0].(*ast.SelectorExpr); ok && lhs.Sel.Name == "X" {
									okRec = true
								}
							}
						}
					}
					return true
				})
			}
			return true
		})
		want := map[string]bool{"Not": true, "BitNegation": true, "Plus": true, "Minus": true}
		okOps = len(caseOps) == len(want)
		for _, o := range caseOps {
			if !want[o] {
				okOps = false
			}
		}
		// the last statement returns the value level
		if n := len(ufd.Body.List); n > 0 {
			if ret, ok := ufd.Body.List[n-1].(*ast.ReturnStmt); ok && len(ret.Results) == 1 {
				if call, ok := ret.Results[0].(*ast.CallExpr); ok {
					if sel, ok := call.Fun.(*ast.SelectorExpr); ok {
						valueLevel = sel.Sel.Name
					}
				}
			}
		}
	}
	obls = append(obls, structOb("syntax.Parser.arithmExpr#precedence@unary-operators", "structural", okOps,
		"the unary level handles exactly the prefix operators ! ~ + -", ""))
	obls = append(obls, structOb("syntax.Parser.arithmExpr#precedence@unary-operand", "structural", okRec,
		"the operand of a prefix operator is parsed by the unary level itself (so that -2**2 is (-2)**2 and !!x nests)", ""))
	obls = append(obls, structOb("syntax.Parser.arithmExpr#precedence@unary-falls-to-value", "structural", valueLevel != "" && valueLevel != unary && valueLevel != cur,
		"without a prefix operator the unary level parses a value ("+valueLevel+")", ""))
	// Above the ternary level: assignment (right-associative, operands: ternary level on the left, itself on the right),
	// and the comma level as the loosest of all.
	afd, _ := findMethodDecl(P, syntaxPkg, "Parser", "arithmExprAssign")
	okAssignLeft, okAssignRight := firstAssignedCall(afd) == "arithmExprTernary", false
	if afd != nil && afd.Body != nil {
		ast.Inspect(afd.Body, func(n ast.Node) bool {
			if as, ok := n.(*ast.AssignStmt); ok && len(as.Rhs) == 1 && len(as.Lhs) == 1 {
				if call, ok := as.Rhs[0].(*ast.CallExpr); ok {
					if sel, ok := call.Fun.(*ast.SelectorExpr); ok && sel.Sel.Name == "arithmExprAssign" {
						okAssignRight = true
					}
				}
			}
			return true
		})
	}
	obls = append(obls, structOb("syntax.Parser.arithmExpr#precedence@assign-level", "structural", okAssignLeft && okAssignRight,
		"assignment operators are looser than ?: and right-associative (left operand: ternary level, right operand: assignment level)", ""))
	cfd, _ := findMethodDecl(P, syntaxPkg, "Parser", "arithmExprComma")
	cnext, cops, cok := binaryLevel(cfd)
	obls = append(obls, structOb("syntax.Parser.arithmExpr#precedence@comma-level", "structural", cok && cnext == "arithmExprAssign" && len(cops) == 1 && cops[0] == "Comma",
		"the comma operator is the loosest level and its operands are assignment expressions", ""))
	efd, _ := findMethodDecl(P, syntaxPkg, "Parser", "arithmExpr")
	entry := ""
	if efd != nil && efd.Body != nil && len(efd.Body.List) == 1 {
		if ret, ok := efd.Body.List[0].(*ast.ReturnStmt); ok && len(ret.Results) == 1 {
			if call, ok := ret.Results[0].(*ast.CallExpr); ok {
				if sel, ok := call.Fun.(*ast.SelectorExpr); ok {
					entry = sel.Sel.Name
				}
			}
		}
	}
	obls = append(obls, structOb("syntax.Parser.arithmExpr#precedence@entry", "structural", entry == "arithmExprComma",
		"an arithmetic expression is parsed from the loosest (comma) level", ""))
	return obls, []string{"syntax.Parser.arithmExpr* (precedence chain)"}, nil
}

// firstAssignedCall: the method called by the first statement `v := p.METHOD(...)` of the function.
func firstAssignedCall(fd *ast.FuncDecl) string {
	if fd == nil || fd.Body == nil {
		return ""
	}
	for _, st := range fd.Body.List {
		if as, ok := st.(*ast.AssignStmt); ok && len(as.Rhs) == 1 {
			if call, ok := as.Rhs[0].(*ast.CallExpr); ok {
				if sel, ok := call.Fun.(*ast.SelectorExpr); ok {
					return sel.Sel.Name
				}
			}
			return ""
		}
	}
	return ""
}
