package main

import (
	"fmt"
	"go/token"
	"go/types"
	"strings"

	"golang.org/x/tools/go/ssa"
)

// Generator C for C07 (parsing does not depend on how input bytes arrive), over the go/ssa of package syntax.
//
// The lexer reads from a refillable buffer p.bs with cursor p.bsp. Whether a byte is *already buffered* depends on
// how the reader delivered the input, so no decision other than "refill now" may depend on it. Obligation
// syntax#refill-at-boundary@<func>:<line>: every comparison that involves the length of p.bs, or of a slice derived
// from it, and that lies outside the refill primitives fill/peek/peekTwo, has a call of fill in its own block, in a
// predecessor or in a successor block (the test exists to decide whether to refill, or follows a refill that reported
// end of input). The same holds for every call that receives an *open-ended* slice of the buffer (p.bs[i:] -- its
// extent is whatever happens to be buffered), e.g. bytes.HasPrefix or utf8.FullRune; utf8.DecodeRune is exempt when a
// utf8.FullRune test on the same bytes follows (the decode is then re-done after the refill).
//
// Obligation syntax#refill-retry@<func>:<line>: a test that may need more than one further byte (anything but the
// plain `p.bsp >= len(p.bs)` comparison) must be re-evaluated after the refill, because one refill may deliver a
// single byte: the adjacent fill call lies on a cycle.

func init() {
	propGens["C07"] = append(propGens["C07"], genRefill)
	propPkgs["C07"] = []string{syntaxPkg}
}

func isParserField(v ssa.Value, field string) bool {
	u, ok := v.(*ssa.UnOp)
	if !ok || u.Op != token.MUL {
		return false
	}
	fa, ok := u.X.(*ssa.FieldAddr)
	if !ok {
		return false
	}
	n, ok := types.Unalias(derefType(fa.X.Type())).(*types.Named)
	if !ok || n.Obj().Name() != "Parser" || n.Obj().Pkg() == nil || n.Obj().Pkg().Path() != syntaxPkg {
		return false
	}
	return n.Underlying().(*types.Struct).Field(fa.Field).Name() == field
}

// derivedFromBs: v is p.bs or a slice / phi of slices of it.
func derivedFromBs(v ssa.Value, depth int, seen map[ssa.Value]bool) bool {
	if depth > 6 || seen[v] {
		return false
	}
	seen[v] = true
	if isParserField(v, "bs") {
		return true
	}
	switch x := v.(type) {
	case *ssa.Slice:
		return derivedFromBs(x.X, depth+1, seen)
	case *ssa.Phi:
		for _, e := range x.Edges {
			if derivedFromBs(e, depth+1, seen) {
				return true
			}
		}
	}
	return false
}

func isLenOfBs(v ssa.Value, depth int) bool {
	if depth > 4 {
		return false
	}
	switch x := v.(type) {
	case *ssa.Call:
		if b, ok := x.Call.Value.(*ssa.Builtin); ok && b.Name() == "len" && len(x.Call.Args) == 1 {
			return derivedFromBs(x.Call.Args[0], 0, map[ssa.Value]bool{})
		}
	case *ssa.Convert:
		return isLenOfBs(x.X, depth+1)
	case *ssa.BinOp:
		if x.Op == token.ADD || x.Op == token.SUB {
			return isLenOfBs(x.X, depth+1) || isLenOfBs(x.Y, depth+1)
		}
	}
	return false
}

func blockCallsFill(b *ssa.BasicBlock) bool {
	for _, ins := range b.Instrs {
		if ci, ok := ins.(ssa.CallInstruction); ok {
			if callee := ci.Common().StaticCallee(); callee != nil {
				switch shortFuncName(callee) {
				case "syntax.Parser.fill":
					return true
				}
			}
		}
	}
	return false
}

// cursorMove: the instruction may move the read cursor or consume input (a store to p.bsp, or a call of a Parser
// method other than the lookahead primitives).
func cursorMove(ins ssa.Instruction) bool {
	switch y := ins.(type) {
	case *ssa.Store:
		if fa, isFA := y.Addr.(*ssa.FieldAddr); isFA {
			if n, isN := types.Unalias(derefType(fa.X.Type())).(*types.Named); isN && n.Obj().Name() == "Parser" && n.Obj().Pkg() != nil && n.Obj().Pkg().Path() == syntaxPkg {
				return n.Underlying().(*types.Struct).Field(fa.Field).Name() == "bsp"
			}
		}
	case ssa.CallInstruction:
		if cal := y.Common().StaticCallee(); cal != nil {
			switch shortFuncName(cal) {
			case "syntax.Parser.peek", "syntax.Parser.peekTwo", "syntax.Parser.fill":
				return false
			}
			if cal.Signature.Recv() != nil && strings.HasPrefix(shortFuncName(cal), "syntax.Parser.") {
				return true
			}
		}
	}
	return false
}

func instrCallsFill(ins ssa.Instruction) bool {
	if ci, ok := ins.(ssa.CallInstruction); ok {
		if callee := ci.Common().StaticCallee(); callee != nil && shortFuncName(callee) == "syntax.Parser.fill" {
			return true
		}
	}
	return false
}

// isBoundaryTest: comparison involving the length of the buffer or of a slice of it.
func isBoundaryTest(ins ssa.Instruction) (*ssa.BinOp, bool) {
	bo, ok := ins.(*ssa.BinOp)
	if !ok {
		return nil, false
	}
	switch bo.Op {
	case token.LSS, token.LEQ, token.GTR, token.GEQ, token.EQL, token.NEQ:
	default:
		return nil, false
	}
	if !isLenOfBs(bo.X, 0) && !isLenOfBs(bo.Y, 0) {
		return nil, false
	}
	return bo, true
}

// refillPoints finds, for the instruction at index idx of block b, the refill points that cover it: fill calls that
// follow it directly (a successor block calls fill: the test decides whether to refill), and, walking the CFG
// backwards without crossing a cursor move, fill calls or earlier boundary tests whose successor calls fill.
// ok is false if some backward path reaches a cursor move or the function entry first.
func refillPoints(b *ssa.BasicBlock, idx int) (fills []*ssa.BasicBlock, ok bool) {
	if bo, isT := isBoundaryTest(b.Instrs[idx]); isT {
		if fs, fok := forwardRefill(b, bo); fok {
			return fs, true
		}
	}
	for _, sx := range b.Succs {
		if blockCallsFill(sx) {
			return []*ssa.BasicBlock{sx}, true
		}
	}
	for i := idx + 1; i < len(b.Instrs); i++ {
		if instrCallsFill(b.Instrs[i]) {
			return []*ssa.BasicBlock{b}, true
		}
	}
	ok = true
	seen := map[*ssa.BasicBlock]bool{}
	var walk func(cur *ssa.BasicBlock, from int)
	walk = func(cur *ssa.BasicBlock, from int) {
		for i := from; i >= 0; i-- {
			if instrCallsFill(cur.Instrs[i]) {
				fills = append(fills, cur)
				return
			}
			if cursorMove(cur.Instrs[i]) {
				ok = false
				return
			}
		}
		if len(cur.Preds) == 0 {
			ok = false
			return
		}
		for _, p := range cur.Preds {
			if seen[p] {
				continue
			}
			seen[p] = true
			// an earlier boundary test that leads to a refill when needed
			covered := false
			for _, ins := range p.Instrs {
				if _, isT := isBoundaryTest(ins); isT {
					for _, sx := range p.Succs {
						if blockCallsFill(sx) {
							fills = append(fills, sx)
							covered = true
						}
					}
				}
			}
			if covered {
				continue
			}
			walk(p, len(p.Instrs)-1)
		}
	}
	walk(b, idx-1)
	return fills, ok && len(fills) > 0
}

// fewSide returns the successor of b taken when the boundary test bo (which must directly control b's branch) means
// "fewer bytes are buffered" (nil if it cannot be told).
func fewSide(b *ssa.BasicBlock, bo *ssa.BinOp) *ssa.BasicBlock {
	iff, isIf := lastInstr(b).(*ssa.If)
	if !isIf || iff.Cond != ssa.Value(bo) || len(b.Succs) != 2 {
		return nil
	}
	lenOnX := isLenOfBs(bo.X, 0)
	if lenOnX && isLenOfBs(bo.Y, 0) {
		return nil
	}
	isZero := func(v ssa.Value) bool {
		c, ok := v.(*ssa.Const)
		return ok && c.Value != nil && c.Value.ExactString() == "0"
	}
	op := bo.Op
	other := bo.Y
	if !lenOnX {
		other = bo.X
		switch op { // k op len  ==  len op' k
		case token.LSS:
			op = token.GTR
		case token.LEQ:
			op = token.GEQ
		case token.GTR:
			op = token.LSS
		case token.GEQ:
			op = token.LEQ
		}
	}
	switch op {
	case token.LSS, token.LEQ:
		return b.Succs[0]
	case token.GTR, token.GEQ:
		return b.Succs[1]
	case token.EQL:
		if isZero(other) {
			return b.Succs[0]
		}
	case token.NEQ:
		if isZero(other) {
			return b.Succs[1]
		}
	}
	return nil
}

// lenArgOf returns the slice whose length the comparison tests directly (len(x) against something), or nil.
func lenArgOf(bo *ssa.BinOp) ssa.Value {
	for _, v := range []ssa.Value{bo.X, bo.Y} {
		if c, ok := v.(*ssa.Call); ok {
			if b, ok := c.Call.Value.(*ssa.Builtin); ok && b.Name() == "len" && len(c.Call.Args) == 1 {
				return c.Call.Args[0]
			}
		}
	}
	return nil
}

func zeroCompared(bo *ssa.BinOp) bool {
	for _, v := range []ssa.Value{bo.X, bo.Y} {
		if c, ok := v.(*ssa.Const); ok && c.Value != nil && c.Value.ExactString() == "0" {
			return true
		}
	}
	return false
}

// bufferFullTest: b ends in a boundary test against the constant buffer size; a full buffer cannot be refilled, so
// giving up there does not depend on how the input arrived. Returns the successor for "not full".
func bufferFullTest(b *ssa.BasicBlock) *ssa.BasicBlock {
	iff, isIf := lastInstr(b).(*ssa.If)
	if !isIf {
		return nil
	}
	bo, isT := iff.Cond.(*ssa.BinOp)
	if !isT {
		return nil
	}
	if _, ok := isBoundaryTest(bo); !ok {
		return nil
	}
	isBufSize := func(v ssa.Value) bool {
		c, ok := v.(*ssa.Const)
		return ok && c.Value != nil && c.Value.ExactString() == "1024"
	}
	if !isBufSize(bo.X) && !isBufSize(bo.Y) {
		return nil
	}
	return fewSide(b, bo)
}

// forwardRefill: the comparison bo directly controls the branch at the end of b, and on the outcome that means "too
// few bytes are buffered" every path reaches a fill call before it returns or moves the cursor (except by finding the
// buffer full).
func forwardRefill(b *ssa.BasicBlock, bo *ssa.BinOp) (fills []*ssa.BasicBlock, ok bool) {
	few := fewSide(b, bo)
	if few == nil {
		return nil, false
	}
	ok = true
	seen := map[*ssa.BasicBlock]bool{}
	var walk func(cur *ssa.BasicBlock)
	walk = func(cur *ssa.BasicBlock) {
		if seen[cur] {
			return
		}
		seen[cur] = true
		for _, ins := range cur.Instrs {
			if instrCallsFill(ins) {
				fills = append(fills, cur)
				return
			}
			if cursorMove(ins) {
				ok = false
				return
			}
		}
		if len(cur.Succs) == 0 {
			ok = false
			return
		}
		if nf := bufferFullTest(cur); nf != nil {
			walk(nf)
			return
		}
		// the same length tested again has the same outcome
		if iff, isIf := lastInstr(cur).(*ssa.If); isIf {
			if bo2, isT := iff.Cond.(*ssa.BinOp); isT {
				if _, isB := isBoundaryTest(bo2); isB && lenArgOf(bo2) != nil && lenArgOf(bo2) == lenArgOf(bo) && zeroCompared(bo) && zeroCompared(bo2) {
					if f2 := fewSide(cur, bo2); f2 != nil {
						walk(f2)
						return
					}
				}
			}
		}
		for _, sx := range cur.Succs {
			walk(sx)
		}
	}
	walk(few)
	return fills, ok && len(fills) > 0
}

func genRefill(P *Program, CS *ContractSet, tier string) ([]*Obligation, []string, []string) {
	var obls []*Obligation
	occ := map[string]int{}
	uniq := func(base string) string {
		occ[base]++
		if occ[base] > 1 {
			return fmt.Sprintf("%s~%d", base, occ[base])
		}
		return base
	}
	n := 0
	for _, f := range pkgFunctions(P, syntaxPkg) {
		if shortFuncName(f) == "syntax.Parser.fill" {
			continue
		}
		succ := make([][]int, len(f.Blocks))
		for _, x := range f.Blocks {
			for _, sx := range x.Succs {
				succ[x.Index] = append(succ[x.Index], sx.Index)
			}
		}
		fullRuneChecked := false
		for _, b := range f.Blocks {
			for _, ins := range b.Instrs {
				if c, ok := ins.(*ssa.Call); ok {
					if callee := c.Common().StaticCallee(); callee != nil && callee.Pkg != nil && callee.Pkg.Pkg.Path() == "unicode/utf8" && callee.Name() == "FullRune" {
						fullRuneChecked = true
					}
				}
			}
		}
		fn := strings.TrimPrefix(shortFuncName(f), "syntax.")
		for _, b := range f.Blocks {
			for idx, ins := range b.Instrs {
				multi := false
				what := "a test of how many input bytes are currently buffered (length of p.bs or of a slice of it)"
				if bo, isT := isBoundaryTest(ins); isT {
					multi = !plainBoundaryTest(bo)
				} else if c, isCall := ins.(*ssa.Call); isCall {
					if _, isBuiltin := c.Call.Value.(*ssa.Builtin); isBuiltin {
						continue // len is a boundary test above; append/copy take their extent from the other operand
					}
					open := false
					for _, a := range c.Call.Args {
						if openEndedBs(a, 0, map[ssa.Value]bool{}) {
							open = true
						}
					}
					if !open {
						continue
					}
					if callee := c.Common().StaticCallee(); callee != nil && callee.Pkg != nil && callee.Pkg.Pkg.Path() == "unicode/utf8" && strings.HasPrefix(callee.Name(), "DecodeRune") && fullRuneChecked {
						continue
					}
					multi = true
					what = "a call that receives an open-ended slice of the buffer (its extent is whatever happens to be buffered)"
				} else {
					continue
				}
				n++
				fills, ok := refillPoints(b, idx)
				line := srcLine(P, ins.Pos())
				d := what + " must only decide whether to refill, or follow a refill with no input consumed in between"
				if !ok {
					d += "; here some path reaches it after the cursor moved without a refill, so the outcome depends on how the reader chunked the input"
				}
				obls = append(obls, structOb(uniq(fmt.Sprintf("syntax#refill-at-boundary@%s:%s", fn, line)), "structural", ok, d, posStr(P, P.Prog.Fset, ins.Pos())))
				if !multi || !ok {
					continue
				}
				retried := true
				for _, fb := range fills {
					if !reachesItself(fb.Index, succ) {
						retried = false
					}
				}
				d = "a buffer test that may need more than one further byte is covered by a refill that is retried (one refill may deliver a single byte): the fill call lies on a cycle"
				if !retried {
					d += "; here the refill is attempted once only, so a reader delivering one byte at a time changes the outcome"
				}
				obls = append(obls, structOb(uniq(fmt.Sprintf("syntax#refill-retry@%s:%s", fn, line)), "structural", retried, d, posStr(P, P.Prog.Fset, ins.Pos())))
			}
		}
	}
	obls = append(obls, structOb("syntax#refill-at-boundary@tests-found", "structural", n >= 8,
		fmt.Sprintf("buffer-boundary tests found outside fill: %d (at least 8 expected)", n), ""))
	return obls, []string{"syntax (all functions: buffer-boundary tests)"}, []string{
		"C07: only decisions that test the amount of buffered input are covered; that fill itself delivers the same byte sequence for every chunking is not proved here",
	}
}

// openEndedBs: v is a slice expression of the buffer without an explicit upper bound (or a phi / re-slice of one).
func openEndedBs(v ssa.Value, depth int, seen map[ssa.Value]bool) bool {
	if depth > 6 || seen[v] {
		return false
	}
	seen[v] = true
	if isParserField(v, "bs") {
		return true
	}
	switch x := v.(type) {
	case *ssa.Slice:
		if x.High != nil {
			return false
		}
		return derivedFromBs(x.X, 0, map[ssa.Value]bool{})
	case *ssa.Phi:
		for _, e := range x.Edges {
			if openEndedBs(e, depth+1, seen) {
				return true
			}
		}
	}
	return false
}

// plainBoundaryTest: the comparison is between p.bsp (possibly converted) and len(p.bs) (possibly converted): it asks
// for one further byte, which a successful fill always delivers.
func plainBoundaryTest(bo *ssa.BinOp) bool {
	strip := func(v ssa.Value) ssa.Value {
		for {
			c, ok := v.(*ssa.Convert)
			if !ok {
				return v
			}
			v = c.X
		}
	}
	isBsp := func(v ssa.Value) bool { return isParserField(strip(v), "bsp") }
	isLen := func(v ssa.Value) bool {
		c, ok := strip(v).(*ssa.Call)
		if !ok {
			return false
		}
		b, ok := c.Call.Value.(*ssa.Builtin)
		return ok && b.Name() == "len" && len(c.Call.Args) == 1 && isParserField(c.Call.Args[0], "bs")
	}
	isZero := func(v ssa.Value) bool {
		c, ok := v.(*ssa.Const)
		return ok && c.Value != nil && c.Value.ExactString() == "0"
	}
	return (isBsp(bo.X) && isLen(bo.Y)) || (isLen(bo.X) && isBsp(bo.Y)) || (isLen(bo.X) && isZero(bo.Y)) || (isZero(bo.X) && isLen(bo.Y))
}
