package main

import (
	"fmt"
	"go/token"
	"go/types"
	"strings"

	"golang.org/x/tools/go/ssa"
)

// Generator C for C07 (parsing does not depend on how input bytes arrive), over the go/ssa of package syntax.
//
// The lexer reads from a refillable buffer p.bs with cursor p.bsp. Whether a byte is *already buffered* depends on
// how the reader delivered the input, so no decision other than "refill now" may depend on it. Obligation
// syntax#refill-at-boundary@<func>:<line>: every comparison that involves the length of p.bs, or of a slice derived
// from it, and that lies outside the refill primitives fill/peek/peekTwo, has a call of fill in its own block, in a
// predecessor or in a successor block (the test exists to decide whether to refill, or follows a refill that reported
// end of input).

func init() {
	propGens["C07"] = append(propGens["C07"], genRefill)
	propPkgs["C07"] = []string{syntaxPkg}
}

func isParserField(v ssa.Value, field string) bool {
	u, ok := v.(*ssa.UnOp)
	if !ok || u.Op != token.MUL {
		return false
	}
	fa, ok := u.X.(*ssa.FieldAddr)
	if !ok {
		return false
	}
	n, ok := types.Unalias(derefType(fa.X.Type())).(*types.Named)
	if !ok || n.Obj().Name() != "Parser" || n.Obj().Pkg() == nil || n.Obj().Pkg().Path() != syntaxPkg {
		return false
	}
	return n.Underlying().(*types.Struct).Field(fa.Field).Name() == field
}

// derivedFromBs: v is p.bs or a slice / phi of slices of it.
func derivedFromBs(v ssa.Value, depth int, seen map[ssa.Value]bool) bool {
	if depth > 6 || seen[v] {
		return false
	}
	seen[v] = true
	if isParserField(v, "bs") {
		return true
	}
	switch x := v.(type) {
	case *ssa.Slice:
		return derivedFromBs(x.X, depth+1, seen)
	case *ssa.Phi:
		for _, e := range x.Edges {
			if derivedFromBs(e, depth+1, seen) {
				return true
			}
		}
	}
	return false
}

func isLenOfBs(v ssa.Value, depth int) bool {
	if depth > 4 {
		return false
	}
	switch x := v.(type) {
	case *ssa.Call:
		if b, ok := x.Call.Value.(*ssa.Builtin); ok && b.Name() == "len" && len(x.Call.Args) == 1 {
			return derivedFromBs(x.Call.Args[0], 0, map[ssa.Value]bool{})
		}
	case *ssa.Convert:
		return isLenOfBs(x.X, depth+1)
	case *ssa.BinOp:
		if x.Op == token.ADD || x.Op == token.SUB {
			return isLenOfBs(x.X, depth+1) || isLenOfBs(x.Y, depth+1)
		}
	}
	return false
}

func blockCallsFill(b *ssa.BasicBlock) bool {
	for _, ins := range b.Instrs {
		if ci, ok := ins.(ssa.CallInstruction); ok {
			if callee := ci.Common().StaticCallee(); callee != nil {
				switch shortFuncName(callee) {
				case "syntax.Parser.fill":
					return true
				}
			}
		}
	}
	return false
}

func genRefill(P *Program, CS *ContractSet, tier string) ([]*Obligation, []string, []string) {
	var obls []*Obligation
	prim := map[string]bool{"syntax.Parser.fill": true, "syntax.Parser.peek": true, "syntax.Parser.peekTwo": true}
	occ := map[string]int{}
	n := 0
	for _, f := range pkgFunctions(P, syntaxPkg) {
		if prim[shortFuncName(f)] {
			continue
		}
		for _, b := range f.Blocks {
			for _, ins := range b.Instrs {
				bo, ok := ins.(*ssa.BinOp)
				if !ok {
					continue
				}
				switch bo.Op {
				case token.LSS, token.LEQ, token.GTR, token.GEQ, token.EQL, token.NEQ:
				default:
					continue
				}
				if !isLenOfBs(bo.X, 0) && !isLenOfBs(bo.Y, 0) {
					continue
				}
				n++
				adjacent := blockCallsFill(b)
				for _, p := range b.Preds {
					if blockCallsFill(p) {
						adjacent = true
					}
				}
				for _, s := range b.Succs {
					if blockCallsFill(s) {
						adjacent = true
					}
				}
				base := fmt.Sprintf("syntax#refill-at-boundary@%s:%s", strings.TrimPrefix(shortFuncName(f), "syntax."), srcLine(P, ins.Pos()))
				occ[base]++
				name := base
				if occ[base] > 1 {
					name = fmt.Sprintf("%s~%d", base, occ[base])
				}
				d := "a test of how many input bytes are currently buffered (length of p.bs or of a slice of it) must only decide whether to refill: a call of fill is adjacent to it"
				if !adjacent {
					d += "; here no refill is adjacent, so the outcome depends on how the reader chunked the input"
				}
				obls = append(obls, structOb(name, "structural", adjacent, d, posStr(P, P.Prog.Fset, ins.Pos())))
			}
		}
	}
	obls = append(obls, structOb("syntax#refill-at-boundary@tests-found", "structural", n >= 2,
		fmt.Sprintf("buffer-boundary tests found outside fill/peek/peekTwo: %d (at least 2 expected)", n), ""))
	return obls, []string{"syntax (all functions: buffer-boundary tests)"}, []string{
		"C07: only decisions that test the amount of buffered input are covered; that fill/peek/peekTwo themselves return a function of the input stream alone is not proved here",
	}
}
