package main

import (
	"fmt"
	"go/ast"
	"go/token"
	"go/types"
	"sort"
	"strings"
)

// Generator C for the reuse clauses of C08 (Parser.reset, Printer.reset) and C30 (Runner.Reset):
// every field of the struct is classified in the contract (`fields <kind>: names`), the classification is complete
// (a new field is a failing obligation), and the reset function treats each field as its class demands.
//
//	config   kept across reuse on purpose (options)
//	caller   set by every entry point before use
//	scratch  written before it is read in every use (justification is an assumption, listed)
//	state    must be assigned by the reset function; its value is proved by the ensures clauses (Generator A)
//	-- whole-struct resets (`*r = T{...}`):
//	config   literal has `F: r.F`
//	orig     saved construction-time value: literal has `F: r.F`, only assigned inside `if !r.didReset`
//	restored literal has `F: r.origF`
//	zero     absent from the literal (zero value)
//	emptied  literal reuses the container (`F: r.F` or `F: r.F[:0]`) and the function empties it
//	derived  assigned after the literal; may read anything (every field is config-derived by then)

func init() {
	propGens["C08"] = append(propGens["C08"], func(P *Program, CS *ContractSet, tier string) ([]*Obligation, []string, []string) {
		o1, f1, a1 := genFieldReset(P, CS, syntaxPkg, "Parser.reset", "Parser", "p")
		o2, f2, a2 := genFieldReset(P, CS, syntaxPkg, "Printer.reset", "Printer", "p")
		return append(o1, o2...), append(f1, f2...), append(a1, a2...)
	})
	propGens["C30"] = append(propGens["C30"], func(P *Program, CS *ContractSet, tier string) ([]*Obligation, []string, []string) {
		return genLiteralReset(P, CS, pkgInterp, "Runner.Reset", "Runner")
	})
	propPkgs["C08"] = []string{syntaxPkg}
	propPkgs["C30"] = []string{pkgInterp}
}

func findMethodDecl(P *Program, pkgPath, typ, name string) (*ast.FuncDecl, *token.FileSet) {
	pp := P.PPkgs[pkgPath]
	if pp == nil {
		return nil, nil
	}
	for _, f := range pp.Syntax {
		for _, d := range f.Decls {
			fd, ok := d.(*ast.FuncDecl)
			if !ok || fd.Recv == nil || fd.Name.Name != name || len(fd.Recv.List) != 1 {
				continue
			}
			t := fd.Recv.List[0].Type
			if st, ok := t.(*ast.StarExpr); ok {
				t = st.X
			}
			if id, ok := t.(*ast.Ident); ok && id.Name == typ {
				return fd, P.Prog.Fset
			}
		}
	}
	return nil, nil
}

func structFields(P *Program, pkgPath, typ string) []string {
	sp := P.Pkgs[pkgPath]
	if sp == nil {
		return nil
	}
	obj := sp.Pkg.Scope().Lookup(typ)
	if obj == nil {
		return nil
	}
	st, ok := obj.Type().Underlying().(*types.Struct)
	if !ok {
		return nil
	}
	var out []string
	for i := 0; i < st.NumFields(); i++ {
		out = append(out, st.Field(i).Name())
	}
	return out
}

func classify(ct *Contract, fields []string, fn string, kinds []string) (map[string]string, []*Obligation) {
	class := map[string]string{}
	var obls []*Obligation
	count := map[string]int{}
	for kind, names := range ct.Fields {
		for _, n := range names {
			count[n]++
			class[n] = kind
		}
	}
	known := map[string]bool{}
	for _, k := range kinds {
		known[k] = true
	}
	have := map[string]bool{}
	for _, f := range fields {
		have[f] = true
		ok := count[f] == 1 && known[class[f]]
		d := fmt.Sprintf("field %s is classified exactly once in the contract of %s (found %d, class %q)", f, fn, count[f], class[f])
		obls = append(obls, structOb(fn+"#classified@"+f, "structural", ok, d, ""))
	}
	var stale []string
	for n := range count {
		if !have[n] {
			stale = append(stale, n)
		}
	}
	sort.Strings(stale)
	obls = append(obls, structOb(fn+"#classification-names", "structural", len(stale) == 0, "every classified name is a field of the struct; stale: "+strings.Join(stale, ","), ""))
	return class, obls
}

// genFieldReset: resets written as field-by-field assignments (Parser.reset, Printer.reset).
func genFieldReset(P *Program, CS *ContractSet, pkgPath, fn, typ, recv string) ([]*Obligation, []string, []string) {
	short := shortKey(pkgPath + "." + fn)
	ct := CS.Funcs[pkgPath+"."+fn]
	if ct == nil || ct.Fields == nil {
		return []*Obligation{structOb(short+"#contract", "structural", false, "no field classification in the contract", "")}, nil, nil
	}
	fields := structFields(P, pkgPath, typ)
	class, obls := classify(ct, fields, short, []string{"config", "caller", "scratch", "state"})
	parts := strings.SplitN(fn, ".", 2)
	fd, fset := findMethodDecl(P, pkgPath, parts[0], parts[1])
	if fd == nil {
		return append(obls, structOb(short+"#exists", "exists", false, "reset function not found", "")), nil, nil
	}
	rname := recv
	if len(fd.Recv.List[0].Names) == 1 {
		rname = fd.Recv.List[0].Names[0].Name
	}
	assigned := map[string]bool{}
	ast.Inspect(fd.Body, func(n ast.Node) bool {
		if as, ok := n.(*ast.AssignStmt); ok {
			for _, l := range as.Lhs {
				if p, ok := selectorPath(l, rname); ok && p != "" && !strings.Contains(p, ".") {
					assigned[p] = true
				}
			}
		}
		return true
	})
	ensuresText := ""
	for _, c := range ct.Ensures {
		ensuresText += " " + c.Text
	}
	var assumptions []string
	for _, f := range fields {
		switch class[f] {
		case "state":
			ok := assigned[f]
			obls = append(obls, structOb(short+"#assigned@"+f, "structural", ok, "state field "+f+" is assigned by "+fn, posStr(P, fset, fd.Pos())))
			mentioned := strings.Contains(ensuresText, rname+"."+f)
			obls = append(obls, structOb(short+"#specified@"+f, "structural", mentioned, "the fresh value of state field "+f+" is stated in an ensures clause (proved by SMT)", ""))
		case "config", "caller", "scratch":
			ok := !assigned[f]
			obls = append(obls, structOb(short+"#untouched@"+f, "structural", ok, class[f]+" field "+f+" is not assigned by "+fn, posStr(P, fset, fd.Pos())))
			if class[f] == "scratch" {
				assumptions = append(assumptions, short+": field "+f+" is scratch (written before read in every use) - not verified")
			}
			if class[f] == "caller" {
				assumptions = append(assumptions, short+": field "+f+" is set by every entry point before use - not verified")
			}
		}
	}
	return obls, []string{short}, assumptions
}

func readsOfRecv(e ast.Expr, rname string) []string {
	var out []string
	ast.Inspect(e, func(n ast.Node) bool {
		if se, ok := n.(*ast.SelectorExpr); ok {
			if id, ok := se.X.(*ast.Ident); ok && id.Name == rname {
				out = append(out, se.Sel.Name)
				return false
			}
		}
		return true
	})
	return out
}

// genLiteralReset: resets written as `*r = T{...}` followed by fix-ups (Runner.Reset).
func genLiteralReset(P *Program, CS *ContractSet, pkgPath, fn, typ string) ([]*Obligation, []string, []string) {
	short := shortKey(pkgPath + "." + fn)
	ct := CS.Funcs[pkgPath+"."+fn]
	if ct == nil || ct.Fields == nil {
		return []*Obligation{structOb(short+"#contract", "structural", false, "no field classification in the contract", "")}, nil, nil
	}
	fields := structFields(P, pkgPath, typ)
	class, obls := classify(ct, fields, short, []string{"config", "orig", "restored", "zero", "emptied", "derived"})
	parts := strings.SplitN(fn, ".", 2)
	fd, fset := findMethodDecl(P, pkgPath, parts[0], parts[1])
	if fd == nil {
		return append(obls, structOb(short+"#exists", "exists", false, "reset function not found", "")), nil, nil
	}
	rname := fd.Recv.List[0].Names[0].Name
	// locate `*r = T{...}` at the top level of the body
	var lit *ast.CompositeLit
	litIdx := -1
	for i, s := range fd.Body.List {
		if as, ok := s.(*ast.AssignStmt); ok && len(as.Lhs) == 1 && len(as.Rhs) == 1 {
			if st, ok := as.Lhs[0].(*ast.StarExpr); ok {
				if id, ok := st.X.(*ast.Ident); ok && id.Name == rname {
					if cl, ok := as.Rhs[0].(*ast.CompositeLit); ok {
						lit, litIdx = cl, i
					}
				}
			}
		}
	}
	obls = append(obls, structOb(short+"#whole-reset", "structural", lit != nil, "the function assigns a whole new "+typ+" value (`*"+rname+" = "+typ+"{...}`), so every field not listed becomes zero", posStr(P, fset, fd.Pos())))
	if lit == nil {
		return obls, []string{short}, nil
	}
	entries := map[string]ast.Expr{}
	for _, el := range lit.Elts {
		if kv, ok := el.(*ast.KeyValueExpr); ok {
			if id, ok := kv.Key.(*ast.Ident); ok {
				entries[id.Name] = kv.Value
			}
		}
	}
	// statements after the literal: which containers are emptied, which fields assigned
	emptiedAfter := map[string]bool{}
	assignedAfter := map[string]bool{}
	for _, s := range fd.Body.List[litIdx+1:] {
		ast.Inspect(s, func(n ast.Node) bool {
			switch x := n.(type) {
			case *ast.CallExpr:
				if id, ok := x.Fun.(*ast.Ident); ok && id.Name == "clear" && len(x.Args) == 1 {
					if p, ok := selectorPath(x.Args[0], rname); ok {
						emptiedAfter[p] = true
					}
				}
			case *ast.AssignStmt:
				for _, l := range x.Lhs {
					if p, ok := selectorPath(l, rname); ok && p != "" && !strings.Contains(p, ".") {
						assignedAfter[p] = true
					}
				}
			}
			return true
		})
	}
	// statements before the literal may only assign orig/config fields (saving the constructor's configuration)
	for _, s := range fd.Body.List[:litIdx] {
		ast.Inspect(s, func(n ast.Node) bool {
			if as, ok := n.(*ast.AssignStmt); ok {
				for _, l := range as.Lhs {
					if p, ok := selectorPath(l, rname); ok && p != "" && !strings.Contains(p, ".") {
						okc := class[p] == "orig" || class[p] == "config"
						obls = append(obls, structOb(short+"#pre-assign@"+p, "structural", okc, "before the whole reset only saved-configuration fields are assigned; "+p+" has class "+class[p], posStr(P, fset, as.Pos())))
					}
				}
			}
			return true
		})
	}
	allowedRead := func(f string) bool {
		c := class[f]
		return c == "config" || c == "orig"
	}
	for _, f := range fields {
		e, inLit := entries[f]
		var ok bool
		var d string
		pos := posStr(P, fset, lit.Pos())
		switch class[f] {
		case "config", "orig":
			p, isSel := "", false
			if inLit {
				p, isSel = selectorPath(e, rname)
			}
			ok = inLit && isSel && p == f
			d = fmt.Sprintf("%s field %s is carried over unchanged (`%s: %s.%s`)", class[f], f, f, rname, f)
		case "restored":
			reads := []string{}
			if inLit {
				reads = readsOfRecv(e, rname)
			}
			ok = inLit && len(reads) > 0
			for _, r := range reads {
				if !allowedRead(r) {
					ok = false
				}
			}
			d = fmt.Sprintf("field %s is restored from saved configuration only (reads %v)", f, reads)
		case "zero":
			ok = !inLit && !assignedAfter[f]
			d = fmt.Sprintf("field %s must be zero after the reset: it must not appear in the literal nor be assigned afterwards", f)
		case "emptied":
			if !inLit {
				ok = true // zero container
				d = fmt.Sprintf("container %s is dropped (zero)", f)
			} else {
				reads := readsOfRecv(e, rname)
				ok = len(reads) == 1 && reads[0] == f
				_, isSlice0 := e.(*ast.SliceExpr)
				emptied := isSlice0 || emptiedAfter[f]
				if se, isS := e.(*ast.SliceExpr); isS {
					// must be x[:0]
					if bl, okb := se.High.(*ast.BasicLit); !okb || bl.Value != "0" || se.Low != nil {
						emptied = false
					}
				}
				ok = ok && emptied
				d = fmt.Sprintf("container %s is reused only after being emptied (`%s[:0]` or clear(%s.%s))", f, f, rname, f)
			}
		case "derived":
			ok = !inLit && assignedAfter[f]
			d = fmt.Sprintf("field %s is recomputed after the whole reset (when every field is a function of the configuration)", f)
		default:
			continue
		}
		obls = append(obls, structOb(short+"#reset@"+f, "structural", ok, d, pos))
	}
	// nothing else in the literal
	var extra []string
	have := map[string]bool{}
	for _, f := range fields {
		have[f] = true
	}
	for k := range entries {
		if !have[k] {
			extra = append(extra, k)
		}
	}
	obls = append(obls, structOb(short+"#literal-keys", "structural", len(extra) == 0 && len(entries) == len(lit.Elts), "the literal is fully keyed by field names", posStr(P, fset, lit.Pos())))
	return obls, []string{short}, []string{short + ": statements after the whole-struct reset read only reset state (every field is then a function of the construction-time configuration); calls made there (setVar...) are not analysed further"}
}
