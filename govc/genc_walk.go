package main

import (
	"fmt"
	"go/ast"
	"go/token"
	"go/types"
	"sort"
	"strings"
)

// Generator C for C14: structural obligations on syntax.Walk / Preorder, generated from go/types.
//
// For every type T with *T implementing syntax.Node:
//   children(T) := exported fields of T that hold Nodes (pointer to a Node struct, Node interface, slice of either,
//                  []Comment, or pointer to a non-Node struct with such fields, recursively), in declaration order.
//   obligation syntax.Walk#children@*T.<path>: the case for *T in Walk's type switch passes exactly that field path
//                  to Walk/walkList/walkNilable/walkComments exactly once on every path on which the field's
//                  container is non-nil; nothing else is visited.
//   obligation syntax.Walk#case@*T: the type switch has a case for *T.
// Protocol obligations: f(node) is the first action and prunes, f(nil) is the last, no other direct call of f, no
// early return from a case; helper shapes; Preorder's stop flag.

func init() {
	propGens["C14"] = append(propGens["C14"], genWalk)
	propPkgs["C14"] = append(propPkgs["C14"], "mvdan.cc/sh/v3/syntax")
}

const syntaxPkg = "mvdan.cc/sh/v3/syntax"

func structOb(name, kind string, ok bool, detail, pos string) *Obligation {
	return &Obligation{Name: name, Func: strings.SplitN(name, "#", 2)[0], Kind: kind, Backend: "structural", OK: ok, Detail: detail, Pos: pos, Descr: detail}
}

type nodeUniverse struct {
	pkg      *types.Package
	nodeIf   *types.Interface
	nodeTyps []*types.Named // struct types T with *T implementing Node
}

func findNodeUniverse(P *Program) (*nodeUniverse, error) {
	sp := P.Pkgs[syntaxPkg]
	if sp == nil {
		return nil, fmt.Errorf("package syntax not loaded")
	}
	obj := sp.Pkg.Scope().Lookup("Node")
	if obj == nil {
		return nil, fmt.Errorf("syntax.Node not found")
	}
	iface, ok := obj.Type().Underlying().(*types.Interface)
	if !ok {
		return nil, fmt.Errorf("syntax.Node is not an interface")
	}
	u := &nodeUniverse{pkg: sp.Pkg, nodeIf: iface}
	names := sp.Pkg.Scope().Names()
	sort.Strings(names)
	for _, n := range names {
		tn, ok := sp.Pkg.Scope().Lookup(n).(*types.TypeName)
		if !ok {
			continue
		}
		named, ok := tn.Type().(*types.Named)
		if !ok {
			continue
		}
		if _, isStruct := named.Underlying().(*types.Struct); !isStruct {
			continue
		}
		if types.Implements(types.NewPointer(named), iface) {
			u.nodeTyps = append(u.nodeTyps, named)
		}
	}
	return u, nil
}

func (u *nodeUniverse) isNodePtr(t types.Type) bool {
	p, ok := t.(*types.Pointer)
	if !ok {
		return false
	}
	n, ok := p.Elem().(*types.Named)
	if !ok {
		return false
	}
	return types.Implements(types.NewPointer(n), u.nodeIf) && n.Obj().Pkg() == u.pkg
}

func (u *nodeUniverse) isNodeIface(t types.Type) bool {
	n, ok := t.(*types.Named)
	if !ok {
		return false
	}
	i, ok := n.Underlying().(*types.Interface)
	if !ok {
		return false
	}
	return types.Implements(i, u.nodeIf) || types.Identical(i, u.nodeIf) || implementsIface(i, u.nodeIf)
}

func implementsIface(i, target *types.Interface) bool {
	for k := 0; k < target.NumMethods(); k++ {
		m := target.Method(k)
		found := false
		for j := 0; j < i.NumMethods(); j++ {
			if i.Method(j).Name() == m.Name() {
				found = true
			}
		}
		if !found {
			return false
		}
	}
	return true
}

type childField struct {
	path string // e.g. "Stmts" or "Slice.Offset"
	kind string // ptr | iface | list | comments
}

// children computes the node-holding exported fields of struct type st.
func (u *nodeUniverse) children(st *types.Struct, prefix string, depth int) []childField {
	var out []childField
	for i := 0; i < st.NumFields(); i++ {
		f := st.Field(i)
		if !f.Exported() {
			continue
		}
		t := f.Type()
		path := prefix + f.Name()
		switch {
		case u.isNodePtr(t):
			out = append(out, childField{path, "ptr"})
		case u.isNodeIface(t):
			out = append(out, childField{path, "iface"})
		default:
			switch x := t.(type) {
			case *types.Slice:
				et := x.Elem()
				if u.isNodePtr(et) || u.isNodeIface(et) {
					out = append(out, childField{path, "list"})
				} else if n, ok := et.(*types.Named); ok && types.Implements(types.NewPointer(n), u.nodeIf) {
					out = append(out, childField{path, "comments"}) // slice of node structs (only []Comment)
				}
			case *types.Pointer:
				// pointer to a non-Node struct that may hold nodes (Slice, Replace, Expansion)
				if n, ok := x.Elem().(*types.Named); ok && depth < 3 {
					if s2, ok := n.Underlying().(*types.Struct); ok && n.Obj().Pkg() == u.pkg {
						out = append(out, u.children(s2, path+".", depth+1)...)
					}
				}
			case *types.Named:
				if s2, ok := x.Underlying().(*types.Struct); ok && x.Obj().Pkg() == u.pkg && depth < 3 && x.Obj().Name() != "Pos" {
					out = append(out, u.children(s2, path+".", depth+1)...)
				}
			}
		}
	}
	return out
}

func selectorPath(e ast.Expr, root string) (string, bool) {
	switch x := e.(type) {
	case *ast.Ident:
		if x.Name == root {
			return "", true
		}
		return "", false
	case *ast.SelectorExpr:
		p, ok := selectorPath(x.X, root)
		if !ok {
			return "", false
		}
		if p == "" {
			return x.Sel.Name, true
		}
		return p + "." + x.Sel.Name, true
	case *ast.ParenExpr:
		return selectorPath(x.X, root)
	}
	return "", false
}

type visit struct {
	path   string
	helper string
	guards []string // field paths tested != nil around the visit
	pos    token.Pos
}

// analyseCaseBody collects the visits of a Walk case body; problems are reported as strings.
func analyseCaseBody(stmts []ast.Stmt, guards []string, visits *[]visit, problems *[]string, fset *token.FileSet) {
	for _, s := range stmts {
		switch x := s.(type) {
		case *ast.ExprStmt:
			call, ok := x.X.(*ast.CallExpr)
			if !ok {
				*problems = append(*problems, "unrecognised expression statement at "+fset.Position(x.Pos()).String())
				continue
			}
			fn, ok := call.Fun.(*ast.Ident)
			if !ok || (fn.Name != "Walk" && fn.Name != "walkList" && fn.Name != "walkNilable" && fn.Name != "walkComments") || len(call.Args) != 2 {
				*problems = append(*problems, "call other than a walk helper at "+fset.Position(x.Pos()).String())
				continue
			}
			if id, ok := call.Args[1].(*ast.Ident); !ok || id.Name != "f" {
				*problems = append(*problems, "walk helper not passed f at "+fset.Position(x.Pos()).String())
			}
			p, ok := selectorPath(call.Args[0], "node")
			if !ok || p == "" {
				*problems = append(*problems, "walk helper argument is not a field of node at "+fset.Position(x.Pos()).String())
				continue
			}
			*visits = append(*visits, visit{p, fn.Name, append([]string(nil), guards...), x.Pos()})
		case *ast.IfStmt:
			// if node.X != nil { ... } without else/init
			be, ok := x.Cond.(*ast.BinaryExpr)
			if !ok || be.Op != token.NEQ || x.Else != nil || x.Init != nil {
				*problems = append(*problems, "conditional other than a nil guard at "+fset.Position(x.Pos()).String())
				continue
			}
			if id, ok := be.Y.(*ast.Ident); !ok || id.Name != "nil" {
				*problems = append(*problems, "conditional other than a nil guard at "+fset.Position(x.Pos()).String())
				continue
			}
			p, ok := selectorPath(be.X, "node")
			if !ok || p == "" {
				*problems = append(*problems, "nil guard on something other than a field of node at "+fset.Position(x.Pos()).String())
				continue
			}
			analyseCaseBody(x.Body.List, append(guards, p), visits, problems, fset)
		case *ast.RangeStmt:
			// the Comments loop: for _, c := range node.Comments { if COND { defer Walk(&c, f); break }; Walk(&c, f) }
			p, ok := selectorPath(x.X, "node")
			if !ok || !commentsLoopShape(x) {
				*problems = append(*problems, "loop other than the recognised Comments loop at "+fset.Position(x.Pos()).String())
				continue
			}
			*visits = append(*visits, visit{p, "comments-loop", append([]string(nil), guards...), x.Pos()})
		case *ast.EmptyStmt:
		default:
			*problems = append(*problems, fmt.Sprintf("unrecognised statement %T at %s", s, fset.Position(s.Pos())))
		}
	}
}

func isWalkAddrC(e ast.Expr, v string) bool {
	call, ok := e.(*ast.CallExpr)
	if !ok || len(call.Args) != 2 {
		return false
	}
	if id, ok := call.Fun.(*ast.Ident); !ok || id.Name != "Walk" {
		return false
	}
	u, ok := call.Args[0].(*ast.UnaryExpr)
	if !ok || u.Op != token.AND {
		return false
	}
	if id, ok := u.X.(*ast.Ident); !ok || id.Name != v {
		return false
	}
	id, ok := call.Args[1].(*ast.Ident)
	return ok && id.Name == "f"
}

func commentsLoopShape(x *ast.RangeStmt) bool {
	v, ok := x.Value.(*ast.Ident)
	if !ok || x.Tok != token.DEFINE {
		return false
	}
	if k, ok := x.Key.(*ast.Ident); !ok || k.Name != "_" {
		return false
	}
	if len(x.Body.List) != 2 {
		return false
	}
	ifs, ok := x.Body.List[0].(*ast.IfStmt)
	if !ok || ifs.Else != nil || len(ifs.Body.List) != 2 {
		return false
	}
	d, ok := ifs.Body.List[0].(*ast.DeferStmt)
	if !ok || !isWalkAddrC(d.Call, v.Name) {
		return false
	}
	if b, ok := ifs.Body.List[1].(*ast.BranchStmt); !ok || b.Tok != token.BREAK || b.Label != nil {
		return false
	}
	es, ok := x.Body.List[1].(*ast.ExprStmt)
	return ok && isWalkAddrC(es.X, v.Name)
}

func findFuncDecl(P *Program, pkgPath, name string) (*ast.FuncDecl, *token.FileSet) {
	pp := P.PPkgs[pkgPath]
	if pp == nil {
		return nil, nil
	}
	for _, f := range pp.Syntax {
		for _, d := range f.Decls {
			if fd, ok := d.(*ast.FuncDecl); ok && fd.Recv == nil && fd.Name.Name == name {
				return fd, P.Prog.Fset
			}
		}
	}
	return nil, nil
}

func posStr(P *Program, fset *token.FileSet, p token.Pos) string {
	if !p.IsValid() {
		return ""
	}
	ps := fset.Position(p)
	return fmt.Sprintf("%s:%d", relPath(ps.Filename, P.Dir), ps.Line)
}

// typesNotFromParser: Node types that the parser never allocates (so Walk need not have a case for them).
var walkExcluded = map[string]string{
	"BraceExp": "only created by SplitBraces (expand), never by the parser; Walk documents a panic for unknown nodes",
}

func genWalk(P *Program, CS *ContractSet, tier string) ([]*Obligation, []string, []string) {
	var obls []*Obligation
	assumptions := []string{
		"C14: Comments loops visit comments up to and including the first trailing one: assumes the parser's ordering 'a comment which trails the node on the same line is last' (syntax/nodes.go)",
	}
	u, err := findNodeUniverse(P)
	if err != nil {
		return []*Obligation{structOb("syntax.Walk#universe", "structural", false, err.Error(), "")}, nil, nil
	}
	fd, fset := findFuncDecl(P, syntaxPkg, "Walk")
	if fd == nil {
		return []*Obligation{structOb("syntax.Walk#exists", "exists", false, "function Walk not found", "")}, nil, nil
	}
	// --- protocol ---
	body := fd.Body.List
	protoOK, protoDetail := true, ""
	// first statement: if !f(node) { return }
	if len(body) < 3 {
		protoOK, protoDetail = false, "Walk body too short"
	} else {
		ifs, ok := body[0].(*ast.IfStmt)
		good := false
		if ok && ifs.Else == nil && ifs.Init == nil && len(ifs.Body.List) == 1 {
			if ue, ok := ifs.Cond.(*ast.UnaryExpr); ok && ue.Op == token.NOT {
				if c, ok := ue.X.(*ast.CallExpr); ok && len(c.Args) == 1 {
					if fi, ok := c.Fun.(*ast.Ident); ok && fi.Name == "f" {
						if a, ok := c.Args[0].(*ast.Ident); ok && a.Name == "node" {
							if r, ok := ifs.Body.List[0].(*ast.ReturnStmt); ok && len(r.Results) == 0 {
								good = true
							}
						}
					}
				}
			}
		}
		if !good {
			protoOK, protoDetail = false, "first statement is not `if !f(node) { return }`"
		}
	}
	obls = append(obls, structOb("syntax.Walk#protocol@visit-node-first-and-prune", "structural", protoOK,
		"Walk starts with `if !f(node) { return }`: the node is reported before its children and children are skipped when f returns false. "+protoDetail, posStr(P, fset, fd.Pos())))
	// last statement: f(nil)
	lastOK := false
	if len(body) > 0 {
		if es, ok := body[len(body)-1].(*ast.ExprStmt); ok {
			if c, ok := es.X.(*ast.CallExpr); ok && len(c.Args) == 1 {
				if fi, ok := c.Fun.(*ast.Ident); ok && fi.Name == "f" {
					if a, ok := c.Args[0].(*ast.Ident); ok && a.Name == "nil" {
						lastOK = true
					}
				}
			}
		}
	}
	obls = append(obls, structOb("syntax.Walk#protocol@nil-after-children", "structural", lastOK,
		"the last statement of Walk is f(nil), after the type switch", posStr(P, fset, fd.End())))
	// no other direct calls of f, no return inside the switch, exactly one switch in between
	nF, nRet := 0, 0
	var sw *ast.TypeSwitchStmt
	for _, s := range body[1:] {
		if ts, ok := s.(*ast.TypeSwitchStmt); ok {
			sw = ts
		}
	}
	ast.Inspect(fd.Body, func(n ast.Node) bool {
		switch x := n.(type) {
		case *ast.CallExpr:
			if id, ok := x.Fun.(*ast.Ident); ok && id.Name == "f" {
				nF++
			}
		case *ast.ReturnStmt:
			nRet++
		case *ast.FuncLit:
			return false
		}
		return true
	})
	obls = append(obls, structOb("syntax.Walk#protocol@no-other-callback-calls", "structural", nF == 2 && nRet == 1 && sw != nil && len(body) == 3,
		fmt.Sprintf("Walk calls f directly exactly twice (node, nil), returns early only when pruning, and consists of prune-check, type switch, f(nil) (found %d calls of f, %d returns, %d statements)", nF, nRet, len(body)), posStr(P, fset, fd.Pos())))
	if sw == nil {
		obls = append(obls, structOb("syntax.Walk#switch", "structural", false, "type switch not found", ""))
		return obls, []string{"syntax.Walk"}, assumptions
	}
	// --- cases ---
	cases := map[string]*ast.CaseClause{}
	hasDefaultPanic := false
	for _, c := range sw.Body.List {
		cc := c.(*ast.CaseClause)
		if cc.List == nil {
			if len(cc.Body) == 1 {
				if es, ok := cc.Body[0].(*ast.ExprStmt); ok {
					if call, ok := es.X.(*ast.CallExpr); ok {
						if id, ok := call.Fun.(*ast.Ident); ok && id.Name == "panic" {
							hasDefaultPanic = true
						}
					}
				}
			}
			continue
		}
		for _, te := range cc.List {
			if st, ok := te.(*ast.StarExpr); ok {
				if id, ok := st.X.(*ast.Ident); ok {
					cases[id.Name] = cc
				}
			}
		}
		if len(cc.List) != 1 {
			obls = append(obls, structOb("syntax.Walk#case-shape@"+posStr(P, fset, cc.Pos()), "structural", false, "case with several types: node is not concretely typed", posStr(P, fset, cc.Pos())))
		}
	}
	_ = hasDefaultPanic
	for _, nt := range u.nodeTyps {
		name := nt.Obj().Name()
		if why, ex := walkExcluded[name]; ex {
			assumptions = append(assumptions, "C14: node type "+name+" has no Walk case: "+why)
			continue
		}
		cc := cases[name]
		obls = append(obls, structOb("syntax.Walk#case@*"+name, "structural", cc != nil, "the type switch in Walk has a case for *"+name, posStr(P, fset, sw.Pos())))
		if cc == nil {
			continue
		}
		var visits []visit
		var problems []string
		analyseCaseBody(cc.Body, nil, &visits, &problems, fset)
		obls = append(obls, structOb("syntax.Walk#case-body@*"+name, "structural", len(problems) == 0,
			"the case body consists only of walk-helper calls, nil guards and the Comments loop. "+strings.Join(problems, "; "), posStr(P, fset, cc.Pos())))
		want := u.children(nt.Underlying().(*types.Struct), "", 0)
		count := map[string]int{}
		for _, v := range visits {
			count[v.path]++
		}
		for _, ch := range want {
			n := count[ch.path]
			ok := n == 1
			detail := fmt.Sprintf("field %s.%s (%s) holds nodes and must be walked exactly once; walked %d time(s)", name, ch.path, ch.kind, n)
			if ok {
				// helper must fit the field kind, guards must be prefixes of the path
				for _, v := range visits {
					if v.path != ch.path {
						continue
					}
					switch ch.kind {
					case "list":
						ok = v.helper == "walkList"
					case "comments":
						ok = v.helper == "walkComments" || v.helper == "comments-loop"
					case "ptr", "iface":
						ok = v.helper == "walkNilable" || v.helper == "Walk"
					}
					if !ok {
						detail += "; helper " + v.helper + " does not fit field kind " + ch.kind
					}
					for _, g := range v.guards {
						if !(g == ch.path || strings.HasPrefix(ch.path, g+".")) {
							ok = false
							detail += "; visit is guarded by an unrelated field " + g
						}
					}
				}
			}
			obls = append(obls, structOb("syntax.Walk#children@*"+name+"."+ch.path, "structural", ok, detail, posStr(P, fset, cc.Pos())))
			delete(count, ch.path)
		}
		// nothing else visited
		var extra []string
		for p := range count {
			extra = append(extra, p)
		}
		sort.Strings(extra)
		obls = append(obls, structOb("syntax.Walk#no-extra@*"+name, "structural", len(extra) == 0,
			"the case visits only node-holding exported fields of "+name+"; extra: "+strings.Join(extra, ","), posStr(P, fset, cc.Pos())))
	}
	// --- helpers ---
	obls = append(obls, helperShape(P, "walkList", func(fd *ast.FuncDecl) (bool, string) {
		// for _, node := range list { Walk(node, f) }
		if len(fd.Body.List) != 1 {
			return false, "body is not a single loop"
		}
		rs, ok := fd.Body.List[0].(*ast.RangeStmt)
		if !ok || len(rs.Body.List) != 1 {
			return false, "body is not a single range loop with one statement"
		}
		v, ok := rs.Value.(*ast.Ident)
		if !ok {
			return false, "no loop value"
		}
		if id, ok := rs.X.(*ast.Ident); !ok || id.Name != "list" {
			return false, "does not range over list"
		}
		es, ok := rs.Body.List[0].(*ast.ExprStmt)
		if !ok {
			return false, "loop body is not a call"
		}
		return isWalkOf(es.X, func(e ast.Expr) bool { id, ok := e.(*ast.Ident); return ok && id.Name == v.Name }), "loop body must be Walk(<element>, f)"
	}))
	obls = append(obls, helperShape(P, "walkComments", func(fd *ast.FuncDecl) (bool, string) {
		if len(fd.Body.List) != 1 {
			return false, "body is not a single loop"
		}
		rs, ok := fd.Body.List[0].(*ast.RangeStmt)
		if !ok || len(rs.Body.List) != 1 || rs.Value != nil {
			return false, "body is not `for i := range list` with one statement"
		}
		k, ok := rs.Key.(*ast.Ident)
		if !ok {
			return false, "no loop index"
		}
		if id, ok := rs.X.(*ast.Ident); !ok || id.Name != "list" {
			return false, "does not range over list"
		}
		es, ok := rs.Body.List[0].(*ast.ExprStmt)
		if !ok {
			return false, "loop body is not a call"
		}
		return isWalkOf(es.X, func(e ast.Expr) bool {
			u, ok := e.(*ast.UnaryExpr)
			if !ok || u.Op != token.AND {
				return false
			}
			ix, ok := u.X.(*ast.IndexExpr)
			if !ok {
				return false
			}
			a, ok1 := ix.X.(*ast.Ident)
			b, ok2 := ix.Index.(*ast.Ident)
			return ok1 && ok2 && a.Name == "list" && b.Name == k.Name
		}), "loop body must be Walk(&list[i], f)"
	}))
	obls = append(obls, helperShape(P, "walkNilable", func(fd *ast.FuncDecl) (bool, string) {
		// var zero N; if node != zero { Walk(node, f) }
		if len(fd.Body.List) != 2 {
			return false, "body is not `var zero N; if node != zero { Walk(node, f) }`"
		}
		ds, ok := fd.Body.List[0].(*ast.DeclStmt)
		if !ok {
			return false, "first statement is not a declaration"
		}
		gd, ok := ds.Decl.(*ast.GenDecl)
		if !ok || len(gd.Specs) != 1 {
			return false, "bad declaration"
		}
		vs, ok := gd.Specs[0].(*ast.ValueSpec)
		if !ok || len(vs.Names) != 1 || len(vs.Values) != 0 {
			return false, "zero must be declared without a value"
		}
		ifs, ok := fd.Body.List[1].(*ast.IfStmt)
		if !ok || ifs.Else != nil || len(ifs.Body.List) != 1 {
			return false, "second statement is not a plain if"
		}
		be, ok := ifs.Cond.(*ast.BinaryExpr)
		if !ok || be.Op != token.NEQ {
			return false, "condition is not node != zero"
		}
		a, ok1 := be.X.(*ast.Ident)
		b, ok2 := be.Y.(*ast.Ident)
		if !ok1 || !ok2 || a.Name != "node" || b.Name != vs.Names[0].Name {
			return false, "condition is not node != zero"
		}
		es, ok := ifs.Body.List[0].(*ast.ExprStmt)
		if !ok {
			return false, "if body is not a call"
		}
		return isWalkOf(es.X, func(e ast.Expr) bool { id, ok := e.(*ast.Ident); return ok && id.Name == "node" }), "if body must be Walk(node, f)"
	}))
	// --- Preorder ---
	obls = append(obls, preorderShape(P)...)
	return obls, []string{"syntax.Walk", "syntax.walkList", "syntax.walkNilable", "syntax.walkComments", "syntax.Preorder"}, assumptions
}

func isWalkOf(e ast.Expr, arg0 func(ast.Expr) bool) bool {
	call, ok := e.(*ast.CallExpr)
	if !ok || len(call.Args) != 2 {
		return false
	}
	if id, ok := call.Fun.(*ast.Ident); !ok || id.Name != "Walk" {
		return false
	}
	if id, ok := call.Args[1].(*ast.Ident); !ok || id.Name != "f" {
		return false
	}
	return arg0(call.Args[0])
}

func helperShape(P *Program, name string, check func(*ast.FuncDecl) (bool, string)) *Obligation {
	fd, fset := findFuncDecl(P, syntaxPkg, name)
	if fd == nil {
		return structOb("syntax."+name+"#exists", "exists", false, "helper not found", "")
	}
	ok, why := check(fd)
	// the helper must not call f directly
	nF := 0
	ast.Inspect(fd.Body, func(n ast.Node) bool {
		if c, ok := n.(*ast.CallExpr); ok {
			if id, ok := c.Fun.(*ast.Ident); ok && id.Name == "f" {
				nF++
			}
		}
		return true
	})
	if nF > 0 {
		ok = false
		why += "; the helper calls f directly (the callback protocol belongs to Walk alone)"
	}
	d := "helper " + name + " calls Walk exactly once per (non-nil) element, in order, and never calls f itself"
	if !ok {
		d += ": " + why
	}
	return structOb("syntax."+name+"#shape", "structural", ok, d, posStr(P, fset, fd.Pos()))
}

func preorderShape(P *Program) []*Obligation {
	fd, fset := findFuncDecl(P, syntaxPkg, "Preorder")
	if fd == nil {
		return []*Obligation{structOb("syntax.Preorder#exists", "exists", false, "Preorder not found", "")}
	}
	// find the inner callback: func(node Node) bool { if node != nil { ok = ok && yield(node) }; return ok }
	var inner *ast.FuncLit
	var walkCall *ast.CallExpr
	ast.Inspect(fd.Body, func(n ast.Node) bool {
		if c, ok := n.(*ast.CallExpr); ok {
			if id, ok := c.Fun.(*ast.Ident); ok && id.Name == "Walk" && len(c.Args) == 2 {
				if fl, ok := c.Args[1].(*ast.FuncLit); ok {
					inner, walkCall = fl, c
				}
			}
		}
		return true
	})
	var out []*Obligation
	good := inner != nil
	detail := ""
	nYield := 0
	if inner != nil {
		ast.Inspect(fd.Body, func(n ast.Node) bool {
			if c, ok := n.(*ast.CallExpr); ok {
				if id, ok := c.Fun.(*ast.Ident); ok && id.Name == "yield" {
					nYield++
				}
			}
			return true
		})
		if len(inner.Body.List) != 2 {
			good, detail = false, "callback is not `if node != nil { ok = ok && yield(node) }; return ok`"
		} else {
			ifs, ok1 := inner.Body.List[0].(*ast.IfStmt)
			ret, ok2 := inner.Body.List[1].(*ast.ReturnStmt)
			if !ok1 || !ok2 || len(ret.Results) != 1 || len(ifs.Body.List) != 1 || ifs.Else != nil {
				good, detail = false, "callback shape"
			} else {
				as, ok := ifs.Body.List[0].(*ast.AssignStmt)
				if !ok || len(as.Lhs) != 1 || len(as.Rhs) != 1 || as.Tok != token.ASSIGN {
					good, detail = false, "assignment shape"
				} else {
					lhs, okL := as.Lhs[0].(*ast.Ident)
					be, okB := as.Rhs[0].(*ast.BinaryExpr)
					rid, okR := ret.Results[0].(*ast.Ident)
					if !okL || !okB || !okR || be.Op != token.LAND || rid.Name != lhs.Name {
						good, detail = false, "must be ok = ok && yield(node); return ok"
					} else {
						l, okl := be.X.(*ast.Ident)
						r, okr := be.Y.(*ast.CallExpr)
						if !okl || !okr || l.Name != lhs.Name {
							good, detail = false, "left operand of && must be the stop flag"
						} else if id, ok := r.Fun.(*ast.Ident); !ok || id.Name != "yield" {
							good, detail = false, "right operand of && must be yield(node)"
						}
					}
				}
				// guard: node != nil
				if be, ok := ifs.Cond.(*ast.BinaryExpr); !ok || be.Op != token.NEQ {
					good, detail = false, "guard must be node != nil"
				}
			}
		}
		if id, ok := walkCall.Args[0].(*ast.Ident); !ok || id.Name != "node" {
			good, detail = false, "Preorder must walk its argument"
		}
	} else {
		detail = "Walk(node, func...) call not found"
	}
	out = append(out, structOb("syntax.Preorder#stop-flag", "structural", good && nYield == 1,
		"Preorder yields exactly the non-nil callbacks of Walk(node, ...) and never calls yield again once it returned false (yield is only evaluated as the right operand of `ok &&`, and ok is what the callback returns, so Walk prunes everything after a stop). "+detail, posStr(P, fset, fd.Pos())))
	return out
}
