package main

import (
	"fmt"
	"go/token"
	"go/types"
	"math/big"
	"os"
	"strings"

	"golang.org/x/tools/go/ssa"
)

func osReadFile(name string) ([]byte, error) { return os.ReadFile(name) }

func (e *Enc) reachHere() string { return e.reach[e.curBlock] }

// safety obligation helper (only in the main pass).
func (e *Enc) safety(main bool, kind string, pos token.Pos, cond, descr string) {
	if !main || e.noSafety {
		if main {
			// still assume the condition afterwards
			e.emitAssert(e.curBlock, implies(e.reachHere(), cond))
		}
		return
	}
	anchor := e.srcText(pos)
	if anchor == "" {
		anchor = "?"
	}
	e.oblige(kind, anchor, pos, e.reachHere(), cond, descr)
	// after the check, execution continues only if it held
	e.emitAssert(e.curBlock, implies(e.reachHere(), cond))
}

// bind names the leaves of v as constants for the SSA value (main pass).
func (e *Enc) bind(ins ssa.Value, v Val) Val {
	if v.Bad {
		e.vals[ins] = v
		return v
	}
	ls, ok := e.M.leafSorts(v.T)
	if !ok || len(ls) != len(v.L) {
		e.vals[ins] = v
		return v
	}
	out := Val{T: v.T, Const: v.Const}
	base := "v_" + sanitize(ins.Name())
	for i, t := range v.L {
		out.L = append(out.L, e.def(fmt.Sprintf("%s_%d", base, i), ls[i], t))
	}
	e.vals[ins] = out
	return out
}

func tupleOffset(m Mode, t *types.Tuple, idx int) (int, int) {
	lo := 0
	for i := 0; i < idx; i++ {
		ls, _ := m.leafSorts(t.At(i).Type())
		lo += len(ls)
	}
	ls, _ := m.leafSorts(t.At(idx).Type())
	return lo, lo + len(ls)
}

// evalInstr computes the value of a value-producing instruction that has no side effects other than
// possibly panicking (arithmetic, loads, address computations). ok=false if the instruction is not of that kind.
func (e *Enc) evalInstr(ins ssa.Instruction, st *State, main bool) (Val, bool) {
	m := e.M
	switch x := ins.(type) {
	case *ssa.BinOp:
		return e.binop(x, main), true
	case *ssa.UnOp:
		a := e.val(x.X)
		switch x.Op {
		case token.MUL: // load
			if a.Bad {
				return e.havocValMaybe(x.Type(), main), true
			}
			return e.load(st, x.Type(), a.L[0], a.L[1]), true
		case token.NOT:
			if a.Bad {
				return e.havocValMaybe(x.Type(), main), true
			}
			return Val{T: x.Type(), L: []string{not(a.L[0])}}, true
		case token.SUB:
			if a.Bad {
				return e.havocValMaybe(x.Type(), main), true
			}
			if isInteger(x.Type()) {
				s := m.intSort(x.Type())
				if m == ModeBV {
					if bt, ok := x.Type().Underlying().(*types.Basic); ok && main && e.Ct != nil && len(e.Ct.Overflow) > 0 {
						if bits, signed := intBits(bt); signed {
							minv := new(big.Int).Neg(new(big.Int).Lsh(big.NewInt(1), uint(bits-1)))
							anchor := e.srcText(x.Pos())
							if anchor == "" {
								anchor = "neg"
							}
							e.oblige("overflow", anchor, x.Pos(), e.reachHere(), not(eq(a.L[0], m.lit(s, minv))), "negation does not wrap around (operand is not the minimum integer)")
						}
					}
					return Val{T: x.Type(), L: []string{"(bvneg " + a.L[0] + ")"}}, true
				}
				return Val{T: x.Type(), L: []string{e.wrap(x.Type(), "(- "+a.L[0]+")")}}, true
				_ = s
			}
			return Val{T: x.Type(), L: []string{"(- " + a.L[0] + ")"}}, true
		case token.XOR:
			if a.Bad {
				return e.havocValMaybe(x.Type(), main), true
			}
			if m == ModeBV {
				return Val{T: x.Type(), L: []string{"(bvnot " + a.L[0] + ")"}}, true
			}
			// ^x == -x-1 for signed; for unsigned of width w: 2^w-1-x
			b := x.Type().Underlying().(*types.Basic)
			bits, signed := intBits(b)
			if signed {
				return Val{T: x.Type(), L: []string{"(- (- " + a.L[0] + ") 1)"}}, true
			}
			mx := new(big.Int).Sub(new(big.Int).Lsh(big.NewInt(1), uint(bits)), big.NewInt(1))
			return Val{T: x.Type(), L: []string{"(- " + mx.String() + " " + a.L[0] + ")"}}, true
		}
		return Val{}, false
	case *ssa.Phi:
		return Val{}, false
	case *ssa.ChangeType:
		a := e.val(x.X)
		a.T = x.Type()
		return a, true
	case *ssa.ChangeInterface:
		a := e.val(x.X)
		a.T = x.Type()
		return a, true
	case *ssa.Convert:
		return e.convert(x, main), true
	case *ssa.Extract:
		a := e.val(x.Tuple)
		if a.Bad {
			return e.havocValMaybe(x.Type(), main), true
		}
		lo, hi := tupleOffset(m, x.Tuple.Type().(*types.Tuple), x.Index)
		if hi > len(a.L) {
			return e.havocValMaybe(x.Type(), main), true
		}
		return Val{T: x.Type(), L: a.L[lo:hi]}, true
	case *ssa.Field:
		a := e.val(x.X)
		st0 := x.X.Type().Underlying().(*types.Struct)
		if a.Bad {
			return e.havocValMaybe(x.Type(), main), true
		}
		lo, hi, ok := m.fieldLeafRange(st0, x.Field)
		if !ok || hi > len(a.L) {
			return e.havocValMaybe(x.Type(), main), true
		}
		return Val{T: x.Type(), L: a.L[lo:hi]}, true
	case *ssa.FieldAddr:
		a := e.val(x.X)
		if a.Bad {
			return e.havocValMaybe(x.Type(), main), true
		}
		st0 := derefType(x.X.Type()).Underlying().(*types.Struct)
		off := fieldOffset(st0, x.Field)
		if main && e.pass == 2 && e.Ct != nil && len(e.Ct.TypeInv) > 0 {
			// an object invariant of the struct type holds for the object whose field is addressed here
			if n, ok := types.Unalias(derefType(x.X.Type())).(*types.Named); ok {
				for _, ti := range e.Ct.TypeInv {
					if ti.Type == n.Obj().Name() && strings.Contains(ti.Clause.Text, st0.Field(x.Field).Name()) {
						vars := map[string]Val{"self": a}
						for k, pv := range e.params {
							vars[k] = pv
						}
						env := &Env{e: e, vars: vars, st: st, old: e.entry, pkg: e.Pkg, allocPre: e.entry.Alloc}
						e.emitAssert(e.curBlock, implies(e.reachHere(), e.evalHyp(ti.Clause.Expr, env))) // (addressing a field of nil panics: execution continues only for a real object)
						if ti.Assumed {
							e.assumptions["invariant of parser output assumed in "+e.fnName+" for every "+ti.Type+" (not proved over the parser; hand-built trees may break it): "+ti.Clause.Text] = true
						} else {
							e.assumptions["object invariant of "+ti.Type+" relied on in "+e.fnName+" (re-established by every writer: onstore obligations and onstore-coverage): "+ti.Clause.Text] = true
						}
					}
				}
			}
		}
		return Val{T: x.Type(), L: []string{a.L[0], m.iadd(a.L[1], m.ilit(off))}}, true
	case *ssa.IndexAddr:
		a := e.val(x.X)
		i := e.toIndex(e.val(x.Index), x.Index.Type())
		if a.Bad || i == "" {
			return e.havocValMaybe(x.Type(), main), true
		}
		elem := derefType(x.Type())
		sz := m.ilit(slots(elem))
		switch u := x.X.Type().Underlying().(type) {
		case *types.Slice:
			e.safety(main, "index", x.Pos(), and(m.ile(m.ilit(0), i), m.ilt(i, a.L[2])), "index in range of slice")
			return Val{T: x.Type(), L: []string{a.L[0], m.iadd(a.L[1], m.imul(i, sz))}}, true
		case *types.Pointer:
			arr := u.Elem().Underlying().(*types.Array)
			if _, isConst := x.Index.(*ssa.Const); !isConst {
				e.safety(main, "index", x.Pos(), and(m.ile(m.ilit(0), i), m.ilt(i, m.ilit(arr.Len()))), "index in range of array")
			}
			return Val{T: x.Type(), L: []string{a.L[0], m.iadd(a.L[1], m.imul(i, sz))}}, true
		}
		return e.havocValMaybe(x.Type(), main), true
	case *ssa.Index:
		a := e.val(x.X)
		i := e.toIndex(e.val(x.Index), x.Index.Type())
		if a.Bad || i == "" {
			return e.havocValMaybe(x.Type(), main), true
		}
		switch u := x.X.Type().Underlying().(type) {
		case *types.Basic: // string
			e.needStr()
			e.safety(main, "index", x.Pos(), and(m.ile(m.ilit(0), i), m.ilt(i, "(slen "+a.L[0]+")")), "index in range of string")
			return Val{T: x.Type(), L: []string{e.fromIndexSort("(sat "+a.L[0]+" "+i+")", x.Type())}}, true
		case *types.Array:
			ls, ok := m.leafSorts(u.Elem())
			if ok {
				if c, isC := x.Index.(*ssa.Const); isC {
					k := int(c.Int64())
					n := len(ls)
					if (k+1)*n <= len(a.L) {
						return Val{T: x.Type(), L: a.L[k*n : (k+1)*n]}, true
					}
				}
			}
		}
		return e.havocValMaybe(x.Type(), main), true
	case *ssa.Slice:
		return e.sliceOp(x, st, main), true
	}
	return Val{}, false
}

func (e *Enc) havocValMaybe(t types.Type, main bool) Val {
	if !main {
		return Val{T: t, Bad: true}
	}
	v := e.havocVal(t, "hv")
	return v
}

// toIndex converts an integer value to the index sort I (sign/zero extending in BV mode).
func (e *Enc) toIndex(v Val, t types.Type) string {
	if v.Bad || len(v.L) != 1 {
		return ""
	}
	if e.M == ModeInt {
		return v.L[0]
	}
	b, ok := t.Underlying().(*types.Basic)
	if !ok {
		return ""
	}
	bits, signed := intBits(b)
	if bits == 64 {
		return v.L[0]
	}
	if signed {
		return fmt.Sprintf("((_ sign_extend %d) %s)", 64-bits, v.L[0])
	}
	return fmt.Sprintf("((_ zero_extend %d) %s)", 64-bits, v.L[0])
}

// fromIndexSort converts a term of sort I to the sort of integer type t.
func (e *Enc) fromIndexSort(term string, t types.Type) string {
	if e.M == ModeInt {
		return term
	}
	b := t.Underlying().(*types.Basic)
	bits, _ := intBits(b)
	if bits == 64 {
		return term
	}
	return fmt.Sprintf("((_ extract %d 0) %s)", bits-1, term)
}

// wrap applies modular wrap in int mode for unsigned types narrower than 64 bits.
func (e *Enc) wrap(t types.Type, term string) string {
	if e.M != ModeInt {
		return term
	}
	b, ok := t.Underlying().(*types.Basic)
	if !ok {
		return term
	}
	bits, signed := intBits(b)
	if !signed && bits > 0 && bits < 64 {
		return fmt.Sprintf("(mod %s %s)", term, new(big.Int).Lsh(big.NewInt(1), uint(bits)).String())
	}
	return term
}

func (e *Enc) needGoDiv() {
	e.prelude("goquo", "(define-fun goquo ((a Int) (b Int)) Int (ite (>= a 0) (ite (> b 0) (div a b) (- (div a (- b)))) (ite (> b 0) (- (div (- a) b)) (div (- a) (- b)))))\n"+
		"(define-fun gorem ((a Int) (b Int)) Int (- a (* b (goquo a b))))")
}

func (e *Enc) needBitFns() {
	e.prelude("bitfns", "(declare-fun band (Int Int) Int)\n(declare-fun bor (Int Int) Int)\n(declare-fun bxor (Int Int) Int)\n(declare-fun bshl (Int Int) Int)\n(declare-fun bshr (Int Int) Int)\n(declare-fun bandnot (Int Int) Int)\n"+
		"(assert (forall ((a Int) (b Int)) (! (=> (and (>= a 0) (>= b 0)) (and (>= (band a b) 0) (<= (band a b) a) (<= (band a b) b))) :pattern ((band a b)))))\n"+
		"(assert (forall ((a Int) (b Int)) (! (=> (and (>= a 0) (>= b 0)) (and (>= (bor a b) a) (>= (bor a b) b))) :pattern ((bor a b)))))\n"+
		"(assert (forall ((a Int) (b Int)) (! (=> (and (>= a 0) (>= b 0)) (and (>= (bshr a b) 0) (<= (bshr a b) a))) :pattern ((bshr a b)))))")
}

func constOf(v ssa.Value) (*big.Int, bool) {
	c, ok := v.(*ssa.Const)
	if !ok || c.Value == nil {
		return nil, false
	}
	if b, ok := c.Type().Underlying().(*types.Basic); !ok || b.Info()&types.IsInteger == 0 {
		return nil, false
	}
	return big.NewInt(c.Int64()), true
}

func (e *Enc) binop(x *ssa.BinOp, main bool) Val {
	m := e.M
	a, b := e.val(x.X), e.val(x.Y)
	t := x.Type()
	if a.Bad || b.Bad {
		return e.havocValMaybe(t, main)
	}
	xt := x.X.Type()
	switch x.Op {
	case token.EQL, token.NEQ:
		var r string
		if _, isSl := xt.Underlying().(*types.Slice); isSl {
			// slices are only comparable with nil in Go: compare the object id with 0
			r = eq(a.L[0], b.L[0])
		} else {
			r = e.valEq(a, b, xt)
		}
		if x.Op == token.NEQ {
			r = not(r)
		}
		return Val{T: t, L: []string{r}}
	}
	ub, isBasic := xt.Underlying().(*types.Basic)
	if !isBasic {
		return e.havocValMaybe(t, main)
	}
	switch {
	case ub.Info()&types.IsString != 0:
		e.needStr()
		switch x.Op {
		case token.ADD:
			e.needScat()
			return Val{T: t, L: []string{"(scat " + a.L[0] + " " + b.L[0] + ")"}}
		case token.LSS, token.LEQ, token.GTR, token.GEQ:
			e.prelude("slt", "(declare-fun slt (Str Str) Bool)")
			var r string
			switch x.Op {
			case token.LSS:
				r = "(slt " + a.L[0] + " " + b.L[0] + ")"
			case token.GTR:
				r = "(slt " + b.L[0] + " " + a.L[0] + ")"
			case token.LEQ:
				r = "(not (slt " + b.L[0] + " " + a.L[0] + "))"
			case token.GEQ:
				r = "(not (slt " + a.L[0] + " " + b.L[0] + "))"
			}
			return Val{T: t, L: []string{r}}
		}
		return e.havocValMaybe(t, main)
	case ub.Info()&types.IsBoolean != 0:
		switch x.Op {
		case token.AND, token.LAND:
			return Val{T: t, L: []string{and(a.L[0], b.L[0])}}
		case token.OR, token.LOR:
			return Val{T: t, L: []string{or(a.L[0], b.L[0])}}
		}
		return e.havocValMaybe(t, main)
	case ub.Info()&types.IsFloat != 0:
		switch x.Op {
		case token.LSS:
			return Val{T: t, L: []string{"(< " + a.L[0] + " " + b.L[0] + ")"}}
		case token.LEQ:
			return Val{T: t, L: []string{"(<= " + a.L[0] + " " + b.L[0] + ")"}}
		case token.GTR:
			return Val{T: t, L: []string{"(> " + a.L[0] + " " + b.L[0] + ")"}}
		case token.GEQ:
			return Val{T: t, L: []string{"(>= " + a.L[0] + " " + b.L[0] + ")"}}
		}
		return e.havocValMaybe(t, main)
	case ub.Info()&types.IsInteger == 0:
		return e.havocValMaybe(t, main)
	}
	bits, signed := intBits(ub)
	s := m.intSort(xt)
	A, B := a.L[0], b.L[0]
	switch x.Op {
	case token.LSS:
		return Val{T: t, L: []string{m.lt(signed, A, B)}}
	case token.LEQ:
		return Val{T: t, L: []string{m.le(signed, A, B)}}
	case token.GTR:
		return Val{T: t, L: []string{m.lt(signed, B, A)}}
	case token.GEQ:
		return Val{T: t, L: []string{m.le(signed, B, A)}}
	}
	r := e.intArith(x.Op, xt, x.Y.Type(), A, B, x.X, x.Y, main, x.Pos())
	if r == "" {
		return e.havocValMaybe(t, main)
	}
	_ = bits
	_ = s
	return Val{T: t, L: []string{r}}
}

// intArith builds the term for an integer binary operation; "" if unsupported.
func (e *Enc) intArith(op token.Token, xt, yt types.Type, A, B string, xv, yv ssa.Value, main bool, pos token.Pos) string {
	m := e.M
	ub := xt.Underlying().(*types.Basic)
	bits, signed := intBits(ub)
	s := m.intSort(xt)
	if m == ModeBV {
		if main && signed && pos.IsValid() && e.Ct != nil && len(e.Ct.Overflow) > 0 && (op == token.ADD || op == token.SUB) {
			// signed wrap-around obligation (contract clause `overflow`)
			z := m.lit(s, big.NewInt(0))
			var r, ovf string
			if op == token.ADD {
				r = "(bvadd " + A + " " + B + ")"
				ovf = or(and("(bvsge "+A+" "+z+")", "(bvsge "+B+" "+z+")", "(bvslt "+r+" "+z+")"), and("(bvslt "+A+" "+z+")", "(bvslt "+B+" "+z+")", "(bvsge "+r+" "+z+")"))
			} else {
				r = "(bvsub " + A + " " + B + ")"
				ovf = or(and("(bvsge "+A+" "+z+")", "(bvslt "+B+" "+z+")", "(bvslt "+r+" "+z+")"), and("(bvslt "+A+" "+z+")", "(bvsge "+B+" "+z+")", "(bvsge "+r+" "+z+")"))
			}
			anchor := e.srcText(pos)
			if anchor == "" {
				anchor = "?"
			}
			if !e.inContractEval {
				e.oblige("overflow", anchor, pos, e.reachHere(), not(ovf), "signed integer arithmetic does not wrap around")
			}
		}
		switch op {
		case token.ADD:
			return "(bvadd " + A + " " + B + ")"
		case token.SUB:
			return "(bvsub " + A + " " + B + ")"
		case token.MUL:
			return "(bvmul " + A + " " + B + ")"
		case token.QUO, token.REM:
			e.safety(main, "divzero", pos, not(eq(B, m.lit(s, big.NewInt(0)))), "division by zero")
			if op == token.QUO {
				if signed {
					return "(bvsdiv " + A + " " + B + ")"
				}
				return "(bvudiv " + A + " " + B + ")"
			}
			if signed {
				return "(bvsrem " + A + " " + B + ")"
			}
			return "(bvurem " + A + " " + B + ")"
		case token.AND:
			return "(bvand " + A + " " + B + ")"
		case token.OR:
			return "(bvor " + A + " " + B + ")"
		case token.XOR:
			return "(bvxor " + A + " " + B + ")"
		case token.AND_NOT:
			return "(bvand " + A + " (bvnot " + B + "))"
		case token.SHL, token.SHR:
			// shift count: unsigned (or signed non-negative, else panic) of any width
			yb := yt.Underlying().(*types.Basic)
			ybits, ysigned := intBits(yb)
			cnt := B
			if ysigned {
				e.safety(main, "shift", pos, "(bvsge "+B+" "+m.lit(m.intSort(yt), big.NewInt(0))+")", "negative shift count")
			}
			// bring count to width `bits`, saturating
			var c string
			switch {
			case ybits == bits:
				c = cnt
			case ybits < bits:
				c = fmt.Sprintf("((_ zero_extend %d) %s)", bits-ybits, cnt)
			default:
				lim := m.lit(m.intSort(yt), big.NewInt(int64(bits)))
				c = fmt.Sprintf("(ite (bvuge %s %s) %s ((_ extract %d 0) %s))", cnt, lim, m.lit(s, big.NewInt(int64(bits))), bits-1, cnt)
			}
			if op == token.SHL {
				return "(bvshl " + A + " " + c + ")"
			}
			if signed {
				return "(bvashr " + A + " " + c + ")"
			}
			return "(bvlshr " + A + " " + c + ")"
		}
		return ""
	}
	// mathematical integers
	if main && signed && pos.IsValid() && e.Ct != nil && len(e.Ct.Overflow) > 0 && (op == token.ADD || op == token.SUB) && !e.inContractEval && !e.mathInts {
		// contract clause `overflow` in integer mode: the mathematical result of a signed + or - must lie in the type's
		// range (otherwise the machine result wraps around, which the integer model does not represent)
		if bits, _ := intBits(xt.Underlying().(*types.Basic)); bits > 0 {
			lo := new(big.Int).Neg(new(big.Int).Lsh(big.NewInt(1), uint(bits-1)))
			hi := new(big.Int).Sub(new(big.Int).Lsh(big.NewInt(1), uint(bits-1)), big.NewInt(1))
			r := m.add(s, A, B)
			if op == token.SUB {
				r = m.sub(s, A, B)
			}
			anchor := e.srcText(pos)
			if anchor == "" {
				anchor = "?"
			}
			e.oblige("overflow", anchor, pos, e.reachHere(), and("(<= "+m.lit(SI, lo)+" "+r+")", "(<= "+r+" "+m.lit(SI, hi)+")"), "signed integer arithmetic does not wrap around")
		}
	}
	if e.Ct != nil && e.Ct.Wraps && signed && pos.IsValid() && (op == token.ADD || op == token.SUB) && !e.inContractEval {
		if bits, _ := intBits(xt.Underlying().(*types.Basic)); bits == 64 {
			// exact two's complement: the mathematical result, brought back into range by 2^64
			r := m.add(s, A, B)
			if op == token.SUB {
				r = m.sub(s, A, B)
			}
			return "(ite (> " + r + " 9223372036854775807) (- " + r + " 18446744073709551616) (ite (< " + r + " (- 9223372036854775808)) (+ " + r + " 18446744073709551616) " + r + "))"
		}
	}
	switch op {
	case token.ADD:
		return e.wrap(xt, m.add(s, A, B))
	case token.SUB:
		return e.wrap(xt, m.sub(s, A, B))
	case token.MUL:
		return e.wrap(xt, m.mul(s, A, B))
	case token.QUO, token.REM:
		e.safety(main, "divzero", pos, not(eq(B, "0")), "division by zero")
		if c, ok := constOf(yv); ok && c.Sign() > 0 && !signed {
			if op == token.QUO {
				return "(div " + A + " " + c.String() + ")"
			}
			return "(mod " + A + " " + c.String() + ")"
		}
		e.needGoDiv()
		if op == token.QUO {
			return "(goquo " + A + " " + B + ")"
		}
		return "(gorem " + A + " " + B + ")"
	case token.SHL:
		if c, ok := constOf(yv); ok && c.Sign() >= 0 && c.Int64() < 63 {
			return e.wrap(xt, "(* "+A+" "+new(big.Int).Lsh(big.NewInt(1), uint(c.Int64())).String()+")")
		}
		e.needBitFns()
		return "(bshl " + A + " " + B + ")"
	case token.SHR:
		if c, ok := constOf(yv); ok && c.Sign() >= 0 && c.Int64() < 63 {
			return "(div " + A + " " + new(big.Int).Lsh(big.NewInt(1), uint(c.Int64())).String() + ")"
		}
		e.needBitFns()
		return "(bshr " + A + " " + B + ")"
	case token.AND:
		// x & (2^k-1) for non-negative constant masks is mod 2^k
		for _, pr := range [][2]interface{}{{yv, A}, {xv, B}} {
			if c, ok := constOf(pr[0].(ssa.Value)); ok && c.Sign() >= 0 {
				c1 := new(big.Int).Add(c, big.NewInt(1))
				if new(big.Int).And(c1, c).Sign() == 0 { // c+1 power of two
					return "(mod " + pr[1].(string) + " " + c1.String() + ")"
				}
			}
		}
		e.needBitFns()
		return "(band " + A + " " + B + ")"
	case token.OR:
		e.needBitFns()
		return "(bor " + A + " " + B + ")"
	case token.XOR:
		e.needBitFns()
		return "(bxor " + A + " " + B + ")"
	case token.AND_NOT:
		e.needBitFns()
		return "(bandnot " + A + " " + B + ")"
	}
	_ = bits
	return ""
}

// valEq is structural equality of two values of Go type t.
func (e *Enc) valEq(a, b Val, t types.Type) string {
	if a.Bad || b.Bad {
		return e.decl(e.fresh("eqhv"), SBool)
	}
	switch t.Underlying().(type) {
	case *types.Map, *types.Signature:
		// only comparable with nil: compare object ids
		return eq(a.L[0], b.L[0])
	}
	n := len(a.L)
	if len(b.L) < n {
		n = len(b.L)
	}
	var cs []string
	for i := 0; i < n; i++ {
		cs = append(cs, eq(a.L[i], b.L[i]))
	}
	return and(cs...)
}

func (e *Enc) convert(x *ssa.Convert, main bool) Val {
	m := e.M
	a := e.val(x.X)
	from, to := x.X.Type(), x.Type()
	if a.Bad {
		return e.havocValMaybe(to, main)
	}
	fb, fok := from.Underlying().(*types.Basic)
	tb, tok := to.Underlying().(*types.Basic)
	if fok && tok && fb.Info()&types.IsInteger != 0 && tb.Info()&types.IsInteger != 0 {
		return Val{T: to, L: []string{e.intConv(a.L[0], fb, tb, to)}}
	}
	if fok && tok && fb.Info()&types.IsString != 0 && tb.Info()&types.IsString != 0 {
		a.T = to
		return a
	}
	if tok && tb.Info()&types.IsString != 0 {
		e.needStr()
		// string(byte/rune) or string([]byte): uninterpreted result with length facts
		if fok && fb.Info()&types.IsInteger != 0 {
			e.prelude("str_of_rune", "(declare-fun str_of_rune ("+m.smtSort(SI)+") Str)\n(assert (forall ((r "+m.smtSort(SI)+")) (! (and "+m.ile(m.ilit(1), "(slen (str_of_rune r))")+" "+m.ile("(slen (str_of_rune r))", m.ilit(4))+") :pattern ((str_of_rune r)))))\n"+
				"(assert (forall ((r "+m.smtSort(SI)+")) (! (=> (and "+m.ile(m.ilit(0), "r")+" "+m.ilt("r", m.ilit(128))+") (and (= (slen (str_of_rune r)) "+m.ilit(1)+") (= (sat (str_of_rune r) "+m.ilit(0)+") r))) :pattern ((str_of_rune r)))))")
			return Val{T: to, L: []string{"(str_of_rune " + e.toIndex(a, from) + ")"}}
		}
		if sl, ok := from.Underlying().(*types.Slice); ok {
			if eb, ok := sl.Elem().Underlying().(*types.Basic); ok && eb.Kind() == types.Uint8 {
				// string(bytes): length equals len(bytes); content = heap content now
				if main {
					r := e.decl(e.fresh("str_of_bytes"), SStr)
					st := e.curState
					h := e.heap(st, m.intSort(sl.Elem()))
					e.emitAssert(-1, eq("(slen "+r+")", a.L[2]))
					I := m.smtSort(SI)
					e.emitAssert(-1, "(forall ((k "+I+")) (! (=> (and "+m.ile(m.ilit(0), "k")+" "+m.ilt("k", a.L[2])+") (= (sat "+r+" k) "+e.toIndexTerm(e.sel2(h, a.L[0], m.iadd(a.L[1], "k")), sl.Elem())+")) :pattern ((sat "+r+" k))))")
					return Val{T: to, L: []string{r}}
				}
			}
		}
		return e.havocValMaybe(to, main)
	}
	if sl, ok := to.Underlying().(*types.Slice); ok && fok && fb.Info()&types.IsString != 0 {
		// []byte(s) / []rune(s): fresh slice
		if main {
			st := e.curState
			obj := e.newObj(st, "conv")
			if eb, ok := sl.Elem().Underlying().(*types.Basic); ok && eb.Kind() == types.Uint8 {
				e.needStr()
				s := m.intSort(sl.Elem())
				arr := e.fresh("A_conv")
				I := m.smtSort(SI)
				e.emitDecl(fmt.Sprintf("(declare-const %s (Array %s %s))", arr, I, m.smtSort(s)))
				e.emitAssert(-1, "(forall ((k "+I+")) (! (=> (and "+m.ile(m.ilit(0), "k")+" "+m.ilt("k", "(slen "+a.L[0]+")")+") (= (select "+arr+" k) "+e.fromIndexSort("(sat "+a.L[0]+" k)", sl.Elem())+")) :pattern ((select "+arr+" k))))")
				h := e.heap(st, s)
				nh := e.fresh("H_" + string(s))
				e.emitDecl(fmt.Sprintf("(define-fun %s () %s (store %s %s %s))", nh, e.heapSort(s), h, obj, arr))
				st.H[s] = nh
				ln := "(slen " + a.L[0] + ")"
				cp := e.decl(e.fresh("convcap"), SI)
				e.emitAssert(-1, m.ile(ln, cp))
				return Val{T: to, L: []string{obj, m.ilit(0), ln, cp}}
			}
			ln := e.decl(e.fresh("convlen"), SI)
			e.emitAssert(-1, and(m.ile(m.ilit(0), ln), m.ile(ln, "(slen "+a.L[0]+")")))
			sorts := map[Sort]bool{}
			e.allSorts(sl.Elem(), sorts)
			for s := range sorts {
				e.havocObj(st, s, obj)
			}
			return Val{T: to, L: []string{obj, m.ilit(0), ln, ln}}
		}
		return Val{T: to, Bad: true}
	}
	if fok && tok && (fb.Info()&types.IsFloat != 0 || tb.Info()&types.IsFloat != 0) {
		return e.havocValMaybe(to, main)
	}
	// pointer <-> unsafe.Pointer etc.
	ls1, ok1 := m.leafSorts(from)
	ls2, ok2 := m.leafSorts(to)
	if ok1 && ok2 && len(ls1) == len(ls2) {
		a.T = to
		return a
	}
	return e.havocValMaybe(to, main)
}

func (e *Enc) toIndexTerm(term string, t types.Type) string {
	return e.toIndex(Val{T: t, L: []string{term}}, t)
}

func (e *Enc) intConv(term string, fb, tb *types.Basic, to types.Type) string {
	m := e.M
	fbits, fsigned := intBits(fb)
	tbits, tsigned := intBits(tb)
	if m == ModeInt {
		if !tsigned && tbits < 64 && !(fbits <= tbits && !fsigned) {
			return fmt.Sprintf("(mod %s %s)", term, new(big.Int).Lsh(big.NewInt(1), uint(tbits)).String())
		}
		return term
	}
	switch {
	case fbits == tbits:
		return term
	case fbits > tbits:
		return fmt.Sprintf("((_ extract %d 0) %s)", tbits-1, term)
	default:
		if fsigned {
			return fmt.Sprintf("((_ sign_extend %d) %s)", tbits-fbits, term)
		}
		return fmt.Sprintf("((_ zero_extend %d) %s)", tbits-fbits, term)
	}
}

func (e *Enc) sliceOp(x *ssa.Slice, st *State, main bool) Val {
	m := e.M
	a := e.val(x.X)
	t := x.Type()
	if a.Bad {
		return e.havocValMaybe(t, main)
	}
	get := func(v ssa.Value, def string) string {
		if v == nil {
			return def
		}
		s := e.toIndex(e.val(v), v.Type())
		if s == "" {
			return def
		}
		return s
	}
	z := m.ilit(0)
	switch u := x.X.Type().Underlying().(type) {
	case *types.Slice:
		lo := get(x.Low, z)
		hi := get(x.High, a.L[2])
		mx := get(x.Max, a.L[3])
		cond := and(m.ile(z, lo), m.ile(lo, hi), m.ile(hi, mx), m.ile(mx, a.L[3]))
		e.safety(main, "slice", x.Pos(), cond, "slice bounds in range")
		sz := m.ilit(slots(u.Elem()))
		return Val{T: t, L: []string{a.L[0], m.iadd(a.L[1], m.imul(lo, sz)), m.isub(hi, lo), m.isub(mx, lo)}}
	case *types.Basic: // string
		e.needSsub()
		ln := "(slen " + a.L[0] + ")"
		lo := get(x.Low, z)
		hi := get(x.High, ln)
		e.safety(main, "slice", x.Pos(), and(m.ile(z, lo), m.ile(lo, hi), m.ile(hi, ln)), "string slice bounds in range")
		return Val{T: t, L: []string{"(ssub " + a.L[0] + " " + lo + " " + hi + ")"}}
	case *types.Pointer:
		arr := u.Elem().Underlying().(*types.Array)
		n := m.ilit(arr.Len())
		lo := get(x.Low, z)
		hi := get(x.High, n)
		mx := get(x.Max, n)
		if x.Low != nil || x.High != nil || x.Max != nil {
			e.safety(main, "slice", x.Pos(), and(m.ile(z, lo), m.ile(lo, hi), m.ile(hi, mx), m.ile(mx, n)), "array slice bounds in range")
		}
		sz := m.ilit(slots(arr.Elem()))
		return Val{T: t, L: []string{a.L[0], m.iadd(a.L[1], m.imul(lo, sz)), m.isub(hi, lo), m.isub(mx, lo)}}
	}
	return e.havocValMaybe(t, main)
}

// inlineEval re-evaluates a loop-head instruction under the current substitution (no obligations, no caching).
func (e *Enc) inlineEval(ins ssa.Instruction) (Val, bool) {
	if _, isPhi := ins.(*ssa.Phi); isPhi {
		return Val{}, false
	}
	saveNo := e.noSafety
	v, ok := e.evalInstr(ins, e.inlineState, false)
	e.noSafety = saveNo
	if !ok || v.Bad {
		return Val{}, false
	}
	return v, true
}

func lastInstr(b *ssa.BasicBlock) ssa.Instruction {
	return b.Instrs[len(b.Instrs)-1]
}

func joinLines(xs []string) string { return strings.Join(xs, "\n") }
