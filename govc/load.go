package main

import (
	"fmt"
	"go/types"
	"os"
	"strings"

	"golang.org/x/tools/go/packages"
	"golang.org/x/tools/go/ssa"
	"golang.org/x/tools/go/ssa/ssautil"
)

// Program is the loaded SSA form of /repo's current working tree.
type Program struct {
	embedded map[string]bool
	Prog  *ssa.Program
	Pkgs  map[string]*ssa.Package // by import path
	PPkgs map[string]*packages.Package
	Dir   string
}

func repoDir() string {
	if d := os.Getenv("GOVC_REPO"); d != "" {
		return d
	}
	return "/repo"
}

// load loads the given package patterns (relative to the repo) with the verif build tag on.
func load(patterns ...string) (*Program, error) {
	dir := repoDir()
	cfg := &packages.Config{
		Mode:       packages.LoadAllSyntax,
		Dir:        dir,
		BuildFlags: []string{"-tags=verif"},
		Env: append(os.Environ(), "GOFLAGS=-mod=mod", "GOPROXY=off", "GOTOOLCHAIN=local",
			"GOSUMDB=off", "PATH=/opt/veriftools/go1.26.8/bin:"+os.Getenv("PATH")),
	}
	pkgs, err := packages.Load(cfg, patterns...)
	if err != nil {
		return nil, err
	}
	var errs []string
	packages.Visit(pkgs, nil, func(p *packages.Package) {
		for _, e := range p.Errors {
			errs = append(errs, e.Error())
		}
	})
	if len(errs) > 0 {
		return nil, fmt.Errorf("load errors:\n%s", strings.Join(errs, "\n"))
	}
	prog, spkgs := ssautil.AllPackages(pkgs, ssa.InstantiateGenerics|ssa.GlobalDebug)
	prog.Build()
	p := &Program{Prog: prog, Pkgs: map[string]*ssa.Package{}, PPkgs: map[string]*packages.Package{}, Dir: dir}
	for i, sp := range spkgs {
		if sp != nil {
			p.Pkgs[pkgs[i].PkgPath] = sp
			p.PPkgs[pkgs[i].PkgPath] = pkgs[i]
		}
	}
	return p, nil
}

// embeddedTypes: the named struct types (pkgpath.Name) that occur by value inside another type anywhere in the loaded
// program: as a struct field, as the element of an array or slice, as a map key/value or channel element. It walks
// every type that go/types recorded for any expression or definition of every loaded package (so local types and
// composite literals count), conservatively.
func (p *Program) embeddedTypes() map[string]bool {
	if p.embedded != nil {
		return p.embedded
	}
	emb := map[string]bool{}
	seen := map[types.Type]bool{}
	var mark func(t types.Type)
	var walk func(t types.Type)
	mark = func(t types.Type) {
		if n, ok := types.Unalias(t).(*types.Named); ok && n.Obj().Pkg() != nil {
			if _, isStruct := n.Underlying().(*types.Struct); isStruct {
				emb[n.Obj().Pkg().Path()+"."+n.Obj().Name()] = true
			}
		}
		if st, ok := t.Underlying().(*types.Struct); ok {
			_ = st
		}
		if a, ok := t.Underlying().(*types.Array); ok {
			mark(a.Elem())
		}
	}
	walk = func(t types.Type) {
		if t == nil || seen[t] {
			return
		}
		seen[t] = true
		switch u := t.(type) {
		case *types.Named:
			walk(u.Underlying())
			for i := 0; i < u.NumMethods(); i++ {
				walk(u.Method(i).Type())
			}
		case *types.Alias:
			walk(types.Unalias(u))
		case *types.Pointer:
			walk(u.Elem())
		case *types.Slice:
			mark(u.Elem())
			walk(u.Elem())
		case *types.Array:
			mark(u.Elem())
			walk(u.Elem())
		case *types.Map:
			mark(u.Key())
			mark(u.Elem())
			walk(u.Key())
			walk(u.Elem())
		case *types.Chan:
			mark(u.Elem())
			walk(u.Elem())
		case *types.Struct:
			for i := 0; i < u.NumFields(); i++ {
				mark(u.Field(i).Type())
				walk(u.Field(i).Type())
			}
		case *types.Signature:
			walk(u.Params())
			walk(u.Results())
		case *types.Tuple:
			for i := 0; i < u.Len(); i++ {
				walk(u.At(i).Type())
			}
		case *types.Interface:
			for i := 0; i < u.NumMethods(); i++ {
				walk(u.Method(i).Type())
			}
		}
	}
	seenPkg := map[string]bool{}
	var visit func(pp *packages.Package)
	visit = func(pp *packages.Package) {
		if pp == nil || seenPkg[pp.PkgPath] {
			return
		}
		seenPkg[pp.PkgPath] = true
		if pp.Types != nil {
			sc := pp.Types.Scope()
			for _, n := range sc.Names() {
				walk(sc.Lookup(n).Type())
			}
		}
		if pp.TypesInfo != nil {
			for _, tv := range pp.TypesInfo.Types {
				walk(tv.Type)
			}
			for _, o := range pp.TypesInfo.Defs {
				if o != nil {
					walk(o.Type())
				}
			}
		}
		for _, imp := range pp.Imports {
			visit(imp)
		}
	}
	for _, pp := range p.PPkgs {
		visit(pp)
	}
	p.embedded = emb
	return emb
}

// lookupFunc finds "Name" or "Type.Method" or "(*Type).Method" in the package.
func (p *Program) lookupFunc(pkgPath, name string) *ssa.Function {
	sp := p.Pkgs[pkgPath]
	if sp == nil {
		return nil
	}
	if i := strings.LastIndex(name, "$"); i >= 0 {
		// anonymous function: Parent$N (Parent may itself be a closure: F$1$2)
		parent := p.lookupFunc(pkgPath, name[:i])
		if parent == nil {
			return nil
		}
		for _, af := range parent.AnonFuncs {
			if af.Name() == name || strings.HasSuffix(af.Name(), name[strings.LastIndex(name, ".")+1:]) {
				return af
			}
		}
		return nil
	}
	if i := strings.Index(name, "."); i >= 0 {
		tn, mn := name[:i], name[i+1:]
		tn = strings.TrimPrefix(strings.TrimSuffix(strings.TrimPrefix(tn, "("), ")"), "*")
		obj := sp.Pkg.Scope().Lookup(tn)
		if obj == nil {
			return nil
		}
		named, ok := obj.Type().(*types.Named)
		if !ok {
			return nil
		}
		for _, T := range []types.Type{named, types.NewPointer(named)} {
			ms := p.Prog.MethodSets.MethodSet(T)
			if sel := ms.Lookup(sp.Pkg, mn); sel != nil {
				if f := p.Prog.MethodValue(sel); f != nil && f.Synthetic == "" {
					return f
				}
			}
		}
		for _, T := range []types.Type{types.NewPointer(named), named} {
			ms := p.Prog.MethodSets.MethodSet(T)
			if sel := ms.Lookup(sp.Pkg, mn); sel != nil {
				if f := p.Prog.MethodValue(sel); f != nil {
					return f
				}
			}
		}
		return nil
	}
	return sp.Func(name)
}

func cmdDump(args []string) {
	if len(args) < 2 {
		fmt.Fprintln(os.Stderr, "usage: govc dump <pkgpath> <func>...")
		os.Exit(2)
	}
	p, err := load(args[0])
	if err != nil {
		fmt.Fprintln(os.Stderr, err)
		os.Exit(2)
	}
	for _, fn := range args[1:] {
		f := p.lookupFunc(args[0], fn)
		if f == nil {
			fmt.Fprintln(os.Stderr, "not found:", fn)
			continue
		}
		f.WriteTo(os.Stdout)
		e := &Enc{P: p, Fn: f, loops: map[int]*loopInfo{}, loopOf: map[int][]*loopInfo{}}
		e.findLoops()
		for bi, li := range e.loops {
			pos := ""
			for _, ins := range f.Blocks[bi].Instrs {
				if ins.Pos().IsValid() {
					pos = p.Prog.Fset.Position(ins.Pos()).String()
					break
				}
			}
			fmt.Printf("# loop %d: head block %d (%s) %s\n", li.ordinal, bi, f.Blocks[bi].Comment, pos)
		}
		for _, af := range f.AnonFuncs {
			af.WriteTo(os.Stdout)
		}
	}
}
