package main

import (
	"fmt"
	"go/types"
	"os"
	"regexp"
	"sort"
	"strings"

	"golang.org/x/tools/go/packages"
	"golang.org/x/tools/go/ssa"
	"golang.org/x/tools/go/ssa/ssautil"
)

// Program is the loaded SSA form of /repo's current working tree.
type Program struct {
	embedded  map[string]bool
	parents   map[string]map[string]bool        // named struct -> named structs that contain it by value (through arrays and anonymous structs)
	anonTop   map[string]bool                   // (unused: anonymous tops are named by their type string)
	noLayout  map[string]bool                   // struct types whose pointers are converted from/to pointers of another type
	ghostMods map[*ssa.Function]map[string]bool // ghost variables a function may update (see ghostModsOf)
	Prog      *ssa.Program
	Pkgs      map[string]*ssa.Package // by import path
	PPkgs     map[string]*packages.Package
	Dir       string
}

func repoDir() string {
	if d := os.Getenv("GOVC_REPO"); d != "" {
		return d
	}
	return "/repo"
}

// load loads the given package patterns (relative to the repo) with the verif build tag on.
func load(patterns ...string) (*Program, error) {
	dir := repoDir()
	cfg := &packages.Config{
		Mode:       packages.LoadAllSyntax,
		Dir:        dir,
		BuildFlags: []string{"-tags=verif"},
		Env: append(os.Environ(), "GOFLAGS=-mod=mod", "GOPROXY=off", "GOTOOLCHAIN=local",
			"GOSUMDB=off", "PATH=/opt/veriftools/go1.26.8/bin:"+os.Getenv("PATH")),
	}
	pkgs, err := packages.Load(cfg, patterns...)
	if err != nil {
		return nil, err
	}
	var errs []string
	packages.Visit(pkgs, nil, func(p *packages.Package) {
		for _, e := range p.Errors {
			errs = append(errs, e.Error())
		}
	})
	if len(errs) > 0 {
		return nil, fmt.Errorf("load errors:\n%s", strings.Join(errs, "\n"))
	}
	prog, spkgs := ssautil.AllPackages(pkgs, ssa.InstantiateGenerics|ssa.GlobalDebug)
	prog.Build()
	p := &Program{Prog: prog, Pkgs: map[string]*ssa.Package{}, PPkgs: map[string]*packages.Package{}, Dir: dir}
	for i, sp := range spkgs {
		if sp != nil {
			p.Pkgs[pkgs[i].PkgPath] = sp
			p.PPkgs[pkgs[i].PkgPath] = pkgs[i]
		}
	}
	return p, nil
}

// embeddedTypes: the named struct types (pkgpath.Name) that occur by value inside another type anywhere in the loaded
// program: as a struct field, as the element of an array or slice, as a map key/value or channel element. It walks
// every type that go/types recorded for any expression or definition of every loaded package (so local types and
// composite literals count), conservatively.
func (p *Program) embeddedTypes() map[string]bool {
	if p.embedded != nil {
		return p.embedded
	}
	emb := map[string]bool{}
	seen := map[types.Type]bool{}
	var mark func(t types.Type)
	var walk func(t types.Type)
	mark = func(t types.Type) {
		if n, ok := types.Unalias(t).(*types.Named); ok && n.Obj().Pkg() != nil {
			if _, isStruct := n.Underlying().(*types.Struct); isStruct {
				emb[n.Obj().Pkg().Path()+"."+n.Obj().Name()] = true
			}
		}
		if st, ok := t.Underlying().(*types.Struct); ok {
			_ = st
		}
		if a, ok := t.Underlying().(*types.Array); ok {
			mark(a.Elem())
		}
	}
	walk = func(t types.Type) {
		if t == nil || seen[t] {
			return
		}
		seen[t] = true
		switch u := t.(type) {
		case *types.Named:
			walk(u.Underlying())
			for i := 0; i < u.NumMethods(); i++ {
				walk(u.Method(i).Type())
			}
		case *types.Alias:
			walk(types.Unalias(u))
		case *types.Pointer:
			walk(u.Elem())
		case *types.Slice:
			mark(u.Elem())
			walk(u.Elem())
		case *types.Array:
			mark(u.Elem())
			walk(u.Elem())
		case *types.Map:
			mark(u.Key())
			mark(u.Elem())
			walk(u.Key())
			walk(u.Elem())
		case *types.Chan:
			mark(u.Elem())
			walk(u.Elem())
		case *types.Struct:
			for i := 0; i < u.NumFields(); i++ {
				mark(u.Field(i).Type())
				walk(u.Field(i).Type())
			}
		case *types.Signature:
			walk(u.Params())
			walk(u.Results())
		case *types.Tuple:
			for i := 0; i < u.Len(); i++ {
				walk(u.At(i).Type())
			}
		case *types.Interface:
			for i := 0; i < u.NumMethods(); i++ {
				walk(u.Method(i).Type())
			}
		}
	}
	seenPkg := map[string]bool{}
	var visit func(pp *packages.Package)
	visit = func(pp *packages.Package) {
		if pp == nil || seenPkg[pp.PkgPath] {
			return
		}
		seenPkg[pp.PkgPath] = true
		if pp.Types != nil {
			sc := pp.Types.Scope()
			for _, n := range sc.Names() {
				walk(sc.Lookup(n).Type())
			}
		}
		if pp.TypesInfo != nil {
			for _, tv := range pp.TypesInfo.Types {
				walk(tv.Type)
			}
			for _, o := range pp.TypesInfo.Defs {
				if o != nil {
					walk(o.Type())
				}
			}
		}
		for _, imp := range pp.Imports {
			visit(imp)
		}
	}
	for _, pp := range p.PPkgs {
		visit(pp)
	}
	p.embedded = emb
	return emb
}

// lookupFunc finds "Name" or "Type.Method" or "(*Type).Method" in the package.
func (p *Program) lookupFunc(pkgPath, name string) *ssa.Function {
	sp := p.Pkgs[pkgPath]
	if sp == nil {
		return nil
	}
	if i := strings.LastIndex(name, "$"); i >= 0 {
		// anonymous function: Parent$N (Parent may itself be a closure: F$1$2)
		parent := p.lookupFunc(pkgPath, name[:i])
		if parent == nil {
			return nil
		}
		for _, af := range parent.AnonFuncs {
			if af.Name() == name || strings.HasSuffix(af.Name(), name[strings.LastIndex(name, ".")+1:]) {
				return af
			}
		}
		return nil
	}
	if i := strings.Index(name, "."); i >= 0 {
		tn, mn := name[:i], name[i+1:]
		tn = strings.TrimPrefix(strings.TrimSuffix(strings.TrimPrefix(tn, "("), ")"), "*")
		obj := sp.Pkg.Scope().Lookup(tn)
		if obj == nil {
			return nil
		}
		named, ok := obj.Type().(*types.Named)
		if !ok {
			return nil
		}
		for _, T := range []types.Type{named, types.NewPointer(named)} {
			ms := p.Prog.MethodSets.MethodSet(T)
			if sel := ms.Lookup(sp.Pkg, mn); sel != nil {
				if f := p.Prog.MethodValue(sel); f != nil && f.Synthetic == "" {
					return f
				}
			}
		}
		for _, T := range []types.Type{types.NewPointer(named), named} {
			ms := p.Prog.MethodSets.MethodSet(T)
			if sel := ms.Lookup(sp.Pkg, mn); sel != nil {
				if f := p.Prog.MethodValue(sel); f != nil {
					return f
				}
			}
		}
		return nil
	}
	return sp.Func(name)
}

func cmdDump(args []string) {
	if len(args) < 2 {
		fmt.Fprintln(os.Stderr, "usage: govc dump <pkgpath> <func>...")
		os.Exit(2)
	}
	p, err := load(args[0])
	if err != nil {
		fmt.Fprintln(os.Stderr, err)
		os.Exit(2)
	}
	for _, fn := range args[1:] {
		f := p.lookupFunc(args[0], fn)
		if f == nil {
			fmt.Fprintln(os.Stderr, "not found:", fn)
			continue
		}
		f.WriteTo(os.Stdout)
		e := &Enc{P: p, Fn: f, loops: map[int]*loopInfo{}, loopOf: map[int][]*loopInfo{}}
		e.findLoops()
		for bi, li := range e.loops {
			pos := ""
			for _, ins := range f.Blocks[bi].Instrs {
				if ins.Pos().IsValid() {
					pos = p.Prog.Fset.Position(ins.Pos()).String()
					break
				}
			}
			fmt.Printf("# loop %d: head block %d (%s) %s\n", li.ordinal, bi, f.Blocks[bi].Comment, pos)
		}
		for _, af := range f.AnonFuncs {
			af.WriteTo(os.Stdout)
		}
	}
}

// layoutTops: the named struct types whose allocations can contain a value of the named struct type `key`
// (pkgpath.Name) by value: the type itself and, transitively, every named struct that has it as a field (through
// arrays and anonymous structs). The backing array of a slice of T counts as an allocation "of T". ok is false when the
// type also occurs inside an anonymous struct type that stands alone (no named owner): then nothing is claimed.
func (p *Program) layoutTops(key string) (tops []string, ok bool) {
	p.layoutInfo()
	seen := map[string]bool{}
	var rec func(k string) bool
	rec = func(k string) bool {
		if seen[k] {
			return true
		}
		seen[k] = true
		if p.anonTop[k] || p.noLayout[k] {
			return false
		}
		for par := range p.parents[k] {
			if !rec(par) {
				return false
			}
		}
		return true
	}
	if !rec(key) {
		return nil, false
	}
	for k := range seen {
		tops = append(tops, k)
	}
	sort.Strings(tops)
	return tops, true
}

func (p *Program) layoutInfo() {
	if p.parents != nil {
		return
	}
	p.parents = map[string]map[string]bool{}
	p.anonTop = map[string]bool{}
	p.noLayout = map[string]bool{}
	namedKey := func(t types.Type) string {
		if n, ok := types.Unalias(t).(*types.Named); ok && n.Obj().Pkg() != nil {
			if _, isStruct := n.Underlying().(*types.Struct); isStruct {
				return n.Obj().Pkg().Path() + "." + n.Obj().Name()
			}
		}
		return ""
	}
	// descend follows by-value layout: owner identifies the type of the enclosing allocation part: the nearest
	// enclosing named struct, or the anonymous struct type (its type string) at the top of an allocation
	var descend func(t types.Type, owner string, depth int)
	descend = func(t types.Type, owner string, depth int) {
		if t == nil || depth > 12 {
			return
		}
		if k := namedKey(t); k != "" {
			if owner != "" {
				if p.parents[k] == nil {
					p.parents[k] = map[string]bool{}
				}
				p.parents[k][owner] = true
			}
			return
		}
		switch u := types.Unalias(t).Underlying().(type) {
		case *types.Array:
			if k := arrayKey(u.Elem()); k != "" && owner != "" {
				// a slice of the array's elements can point into the owner's allocation
				if p.parents[k] == nil {
					p.parents[k] = map[string]bool{}
				}
				p.parents[k][owner] = true
			}
			descend(u.Elem(), owner, depth+1)
		case *types.Struct:
			if owner == "" {
				owner = canonType(types.TypeString(u, nil))
			}
			for i := 0; i < u.NumFields(); i++ {
				descend(u.Field(i).Type(), owner, depth+1)
			}
		}
	}
	seen := map[types.Type]bool{}
	var walk func(t types.Type)
	walk = func(t types.Type) {
		if t == nil || seen[t] {
			return
		}
		seen[t] = true
		switch u := t.(type) {
		case *types.Named:
			if k := namedKey(u); k != "" {
				st := u.Underlying().(*types.Struct)
				for i := 0; i < st.NumFields(); i++ {
					descend(st.Field(i).Type(), k, 0)
					walk(st.Field(i).Type())
				}
			} else {
				walk(u.Underlying())
			}
			for i := 0; i < u.NumMethods(); i++ {
				walk(u.Method(i).Type())
			}
		case *types.Alias:
			walk(types.Unalias(u))
		case *types.Pointer:
			walk(u.Elem())
		case *types.Slice:
			descend(u.Elem(), "", 0)
			walk(u.Elem())
		case *types.Array:
			descend(u.Elem(), "", 0)
			walk(u.Elem())
		case *types.Map:
			walk(u.Key())
			walk(u.Elem())
		case *types.Chan:
			walk(u.Elem())
		case *types.Struct:
			// an anonymous struct type standing alone
			descend(u, "", 0)
			for i := 0; i < u.NumFields(); i++ {
				walk(u.Field(i).Type())
			}
		case *types.Signature:
			walk(u.Params())
			walk(u.Results())
		case *types.Tuple:
			for i := 0; i < u.Len(); i++ {
				walk(u.At(i).Type())
			}
		case *types.Interface:
			for i := 0; i < u.NumMethods(); i++ {
				walk(u.Method(i).Type())
			}
		}
	}
	seenPkg := map[string]bool{}
	var visit func(pp *packages.Package)
	visit = func(pp *packages.Package) {
		if pp == nil || seenPkg[pp.PkgPath] {
			return
		}
		seenPkg[pp.PkgPath] = true
		if pp.Types != nil {
			sc := pp.Types.Scope()
			for _, n := range sc.Names() {
				walk(sc.Lookup(n).Type())
			}
		}
		if pp.TypesInfo != nil {
			for _, tv := range pp.TypesInfo.Types {
				walk(tv.Type)
			}
			for _, o := range pp.TypesInfo.Defs {
				if o != nil {
					walk(o.Type())
				}
			}
		}
		for _, imp := range pp.Imports {
			visit(imp)
		}
	}
	for _, pp := range p.PPkgs {
		visit(pp)
	}
	// a pointer converted to a pointer to another struct type (identical underlying types, or through
	// unsafe.Pointer) breaks the correspondence between pointer type and allocation type: no facts for such types
	for fn := range ssautil.AllFunctions(p.Prog) {
		if fn.Pkg == nil || p.Pkgs[fn.Pkg.Pkg.Path()] == nil {
			continue
		}
		for _, b := range fn.Blocks {
			for _, ins := range b.Instrs {
				var from, to types.Type
				switch x := ins.(type) {
				case *ssa.ChangeType:
					from, to = x.X.Type(), x.Type()
				case *ssa.Convert:
					from, to = x.X.Type(), x.Type()
				default:
					continue
				}
				for _, t := range []types.Type{from, to} {
					if pt, ok := t.Underlying().(*types.Pointer); ok {
						if k := namedKey(pt.Elem()); k != "" && !types.Identical(from, to) {
							p.noLayout[k] = true
						}
					}
				}
			}
		}
	}
}

// arrayKey names the allocations that are arrays of values of type elem (backing arrays of slices, array variables),
// looking through nested arrays: "[]"+the innermost element type. Empty for named structs (their own key is used).
func arrayKey(elem types.Type) string {
	for {
		a, ok := types.Unalias(elem).Underlying().(*types.Array)
		if !ok {
			break
		}
		elem = a.Elem()
	}
	if n, ok := types.Unalias(elem).(*types.Named); ok {
		if _, isStruct := n.Underlying().(*types.Struct); isStruct {
			return ""
		}
	}
	if _, isStruct := types.Unalias(elem).Underlying().(*types.Struct); isStruct {
		return "" // anonymous struct elements: not tracked
	}
	return "[]" + canonType(types.TypeString(elem, nil))
}

var canonRe = regexp.MustCompile(`\b(byte|rune|any)\b`)

// canonType: one spelling for identical types (byte/uint8, rune/int32, any/interface{}).
func canonType(s string) string {
	return canonRe.ReplaceAllStringFunc(s, func(w string) string {
		switch w {
		case "byte":
			return "uint8"
		case "rune":
			return "int32"
		}
		return "interface{}"
	})
}
