package main

import (
	"fmt"
	"os"
)

func main() {
	// go/packages resolves "go" through this process's PATH: use the go1.26.8 toolchain (needed for go 1.26 sources)
	os.Setenv("PATH", "/opt/veriftools/go1.26.8/bin:"+os.Getenv("PATH"))
	os.Setenv("GOTOOLCHAIN", "local")
	os.Setenv("GOFLAGS", "-mod=mod")
	os.Setenv("GOPROXY", "off")
	os.Setenv("GOSUMDB", "off")
	if len(os.Args) < 2 {
		fmt.Fprintln(os.Stderr, "usage: govc <dump|check|replay|selftest> ...")
		os.Exit(2)
	}
	switch os.Args[1] {
	case "dump":
		cmdDump(os.Args[2:])
	case "verify":
		cmdVerify(os.Args[2:])
	case "check":
		cmdCheck(os.Args[2:])
	case "replay":
		cmdReplay(os.Args[2:])
	case "obls":
		cmdObls(os.Args[2:])
	case "sweep":
		cmdSweep(os.Args[2:])
	case "prov":
		cmdProv(os.Args[2:])
	default:
		fmt.Fprintln(os.Stderr, "unknown command", os.Args[1])
		os.Exit(2)
	}
}
