package main

// tryReplay turns a solver model into a call of the real function (go test -overlay, nothing written to the repo).
func tryReplay(prop string, o *Obligation, dir string) *ReplayResult {
	return replayModel(prop, o, dir)
}
