package main

func replayModel(prop string, o *Obligation, dir string) *ReplayResult { return nil }
