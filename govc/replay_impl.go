package main

// Replay of solver counterexamples on the real code.
//
// For an obligation refuted by a solver (verdict sat) the model describes an entry state of the function under
// contract. Where every parameter (and the receiver) has a type we can construct in Go source (integers, booleans,
// strings, slices, pointers to and values of structs made of these, nil for interfaces/maps/funcs), the entry state is
// read back from the solver (one interactive z3 session: check-sat, then get-value for the parameter leaves and the
// entry heap cells they reach), written as a Go test in the function's own package, injected with `go test -overlay`
// (nothing is written to the repository) and run. The violation is CONFIRMED when the real function panics (safety
// obligations) or returns values for which the contract's postcondition, compiled to Go from the same clause text,
// evaluates to false. Anything else (types we cannot construct, ghost vocabulary in the clause, a model that lives in a
// havocked loop state and does not reproduce from the entry) leaves the violation reported as no-failing-input-found.

import (
	"bufio"
	"bytes"
	"encoding/json"
	"fmt"
	"go/ast"
	"go/token"
	"go/types"
	"io"
	"math/big"
	"os"
	"os/exec"
	"path/filepath"
	"sort"
	"strconv"
	"strings"
	"time"

	"golang.org/x/tools/go/ssa"
)

type replayParam struct {
	Name string
	V    Val
}

// ReplayCtx is captured once per encoded function.
type ReplayCtx struct {
	Fn       *ssa.Function
	Params   []replayParam
	EntryH   map[Sort]string
	M        Mode
	Results  []string
	Ct       *Contract
	CS       *ContractSet
	NoSafety bool
	Dir      string // repository directory
	Ghosts   map[string]bool
}

func (e *Enc) replayCtx() *ReplayCtx {
	if e.rc != nil {
		return e.rc
	}
	rc := &ReplayCtx{Fn: e.Fn, EntryH: map[Sort]string{}, M: e.M, Results: e.resultNames(), Ct: e.Ct, CS: e.CS, NoSafety: e.noSafety, Dir: e.P.Dir, Ghosts: map[string]bool{}}
	for _, p := range e.Fn.Params {
		rc.Params = append(rc.Params, replayParam{p.Name(), e.params[p.Name()]})
	}
	if e.entry != nil {
		for s, h := range e.entry.H {
			rc.EntryH[s] = h
		}
	}
	for g := range e.CS.Ghosts {
		rc.Ghosts[g] = true
	}
	e.rc = rc
	return rc
}

var replayBudget = 3 // replays per check run (each costs a go test build)

// ---- interactive solver session ----

type smtSession struct {
	cmd *exec.Cmd
	in  io.WriteCloser
	out *bufio.Reader
}

func startSession(query string) (*smtSession, string, error) {
	// strip the trailing (check-sat)(get-model)
	q := query
	if i := strings.LastIndex(q, "(check-sat)"); i >= 0 {
		q = q[:i]
	}
	cmd := exec.Command("z3-new", "-in", "-T:20")
	in, err := cmd.StdinPipe()
	if err != nil {
		return nil, "", err
	}
	outp, err := cmd.StdoutPipe()
	if err != nil {
		return nil, "", err
	}
	cmd.Stderr = cmd.Stdout
	if err := cmd.Start(); err != nil {
		return nil, "", err
	}
	s := &smtSession{cmd: cmd, in: in, out: bufio.NewReader(outp)}
	io.WriteString(in, q)
	v, err := s.checkSat()
	return s, v, err
}

func (s *smtSession) close() {
	s.in.Close()
	done := make(chan struct{})
	go func() { s.cmd.Wait(); close(done) }()
	select {
	case <-done:
	case <-time.After(2 * time.Second):
		s.cmd.Process.Kill()
	}
}

func (s *smtSession) readLine() (string, error) {
	type res struct {
		s   string
		err error
	}
	ch := make(chan res, 1)
	go func() {
		for {
			ln, err := s.out.ReadString('\n')
			if err != nil {
				ch <- res{ln, err}
				return
			}
			if strings.TrimSpace(ln) != "" {
				ch <- res{strings.TrimSpace(ln), nil}
				return
			}
		}
	}()
	select {
	case r := <-ch:
		return r.s, r.err
	case <-time.After(40 * time.Second):
		s.cmd.Process.Kill()
		return "", fmt.Errorf("solver session timed out")
	}
}

func (s *smtSession) checkSat() (string, error) {
	io.WriteString(s.in, "(check-sat)\n")
	return s.readLine()
}

// readSexp reads one balanced s-expression (possibly spanning lines).
func (s *smtSession) readSexp() (string, error) {
	var b strings.Builder
	depth := 0
	started := false
	for {
		ln, err := s.readLine()
		if err != nil {
			return b.String(), err
		}
		b.WriteString(ln)
		b.WriteString("\n")
		for _, c := range ln {
			if c == '(' {
				depth++
				started = true
			} else if c == ')' {
				depth--
			}
		}
		if !started || depth <= 0 {
			return b.String(), nil
		}
	}
}

// getValue evaluates one term in the current model.
func (s *smtSession) getValue(term string) (string, error) {
	io.WriteString(s.in, "(get-value ("+term+"))\n")
	out, err := s.readSexp()
	if err != nil {
		return "", err
	}
	if strings.Contains(out, "(error") {
		return "", fmt.Errorf("solver: %s", strings.TrimSpace(out))
	}
	toks := tokenizeSexp(out)
	// (( term value ))
	if len(toks) < 5 || toks[0] != "(" || toks[1] != "(" {
		return "", fmt.Errorf("unexpected get-value answer %q", out)
	}
	j := skipSexp(toks, 2) // skip the echoed term
	k := skipSexp(toks, j)
	return strings.Join(toks[j:k], " "), nil
}

// prefer tries to add a constraint that makes the model simpler; it is kept only if the goal stays satisfiable.
func (s *smtSession) prefer(c string) {
	io.WriteString(s.in, "(push 1)\n(assert "+c+")\n")
	v, err := s.checkSat()
	if err != nil || v != "sat" {
		io.WriteString(s.in, "(pop 1)\n")
		s.checkSat()
	}
}

// ---- reading Go values out of the model ----

type replayX struct {
	rc      *ReplayCtx
	s       *smtSession
	pkg     *types.Package
	imports map[string]string // path -> name
	objs    map[string]string // object id -> where it was used (aliasing guard)
	notes   []string
	// preferences for a simple model: nil for nilable leaves; short strings and slices
	prefsNil  []string
	prefsSize []string
}

type unsupported struct{ why string }

func (u unsupported) Error() string { return u.why }

func (x *replayX) qual(p *types.Package) string {
	if p == x.pkg {
		return ""
	}
	x.imports[p.Path()] = p.Name()
	return p.Name()
}

func (x *replayX) typeStr(t types.Type) string { return types.TypeString(t, x.qual) }

func (x *replayX) evalInt(term string, bits int, signed bool) (*big.Int, error) {
	if strings.Contains(term, "@zero") {
		return new(big.Int), nil
	}
	v, err := x.s.getValue(term)
	if err != nil {
		return nil, err
	}
	return decodeSMTInt(v, signed)
}

func decodeSMTInt(v string, signed bool) (*big.Int, error) {
	v = strings.TrimSpace(v)
	n := new(big.Int)
	switch {
	case strings.HasPrefix(v, "#x"):
		n.SetString(v[2:], 16)
		bits := 4 * len(v[2:])
		if signed && n.Bit(bits-1) == 1 {
			n.Sub(n, new(big.Int).Lsh(big.NewInt(1), uint(bits)))
		}
		return n, nil
	case strings.HasPrefix(v, "#b"):
		n.SetString(v[2:], 2)
		bits := len(v[2:])
		if signed && n.Bit(bits-1) == 1 {
			n.Sub(n, new(big.Int).Lsh(big.NewInt(1), uint(bits)))
		}
		return n, nil
	case strings.HasPrefix(v, "( -"):
		inner := strings.TrimSpace(strings.TrimSuffix(strings.TrimPrefix(v, "( -"), ")"))
		if _, ok := n.SetString(inner, 10); !ok {
			return nil, fmt.Errorf("bad integer %q", v)
		}
		return n.Neg(n), nil
	}
	if _, ok := n.SetString(v, 10); !ok {
		return nil, fmt.Errorf("bad integer %q", v)
	}
	return n, nil
}

func (x *replayX) idx(term string) (int64, error) {
	n, err := x.evalInt(term, 64, true)
	if err != nil {
		return 0, err
	}
	if !n.IsInt64() {
		return 0, unsupported{"model value out of range"}
	}
	return n.Int64(), nil
}

func (x *replayX) loadTerms(t types.Type, obj, off string) ([]string, error) {
	ls, ok := x.rc.M.leafSorts(t)
	if !ok {
		return nil, unsupported{"unrepresentable type " + t.String()}
	}
	var out []string
	for i, s := range ls {
		h, ok := x.rc.EntryH[s]
		if !ok {
			// the function never touches memory of this sort: its contents are irrelevant to the run, use zero
			out = append(out, "@zero")
			continue
		}
		o := off
		if i > 0 {
			o = x.rc.M.iadd(off, x.rc.M.ilit(int64(i)))
		}
		out = append(out, "(select (select "+h+" "+obj+") "+o+")")
	}
	return out, nil
}

// claim records that the object's cells of the sorts of t are owned by one parameter path; a second path reaching the
// same cells would be aliasing, which the generated literals cannot express.
func (x *replayX) claim(obj int64, t types.Type, where string) error {
	sorts := map[Sort]bool{}
	var walk func(t types.Type, d int)
	walk = func(t types.Type, d int) {
		if d > 4 {
			return
		}
		switch u := t.Underlying().(type) {
		case *types.Struct:
			for i := 0; i < u.NumFields(); i++ {
				walk(u.Field(i).Type(), d+1)
			}
		case *types.Array:
			walk(u.Elem(), d+1)
		default:
			if ls, ok := x.rc.M.leafSorts(t); ok {
				for _, s := range ls {
					sorts[s] = true
				}
			}
		}
	}
	walk(t, 0)
	for s := range sorts {
		key := fmt.Sprintf("%d/%s", obj, s)
		if w, ok := x.objs[key]; ok && w != where {
			return unsupported{"two parameters alias the same object in the model (" + w + ", " + where + ")"}
		}
		x.objs[key] = where
	}
	return nil
}

// build returns Go source for the value of type t whose leaves are the SMT terms L.
func (x *replayX) build(t types.Type, L []string, depth int, where string) (string, error) {
	if depth > 6 {
		return "", unsupported{"value nested too deeply"}
	}
	m := x.rc.M
	switch u := t.Underlying().(type) {
	case *types.Basic:
		switch {
		case u.Info()&types.IsInteger != 0:
			bits, signed := intBits(u)
			n, err := x.evalInt(L[0], bits, signed)
			if err != nil {
				return "", err
			}
			return fmt.Sprintf("%s(%s)", x.typeStr(t), n.String()), nil
		case u.Info()&types.IsBoolean != 0:
			if L[0] == "@zero" {
				return fmt.Sprintf("%s(false)", x.typeStr(t)), nil
			}
			v, err := x.s.getValue(L[0])
			if err != nil {
				return "", err
			}
			return fmt.Sprintf("%s(%s)", x.typeStr(t), strings.TrimSpace(v)), nil
		case u.Info()&types.IsString != 0:
			if L[0] == "@zero" {
				return fmt.Sprintf("%s(\"\")", x.typeStr(t)), nil
			}
			n, err := x.idx("(slen " + L[0] + ")")
			if err != nil {
				return "", err
			}
			if n > 2048 {
				return "", unsupported{fmt.Sprintf("string of length %d in the model", n)}
			}
			bs := make([]byte, n)
			for i := int64(0); i < n; i++ {
				c, err := x.idx("(sat " + L[0] + " " + m.ilit(i) + ")")
				if err != nil {
					return "", err
				}
				bs[i] = byte(c)
			}
			return fmt.Sprintf("%s(%s)", x.typeStr(t), strconv.Quote(string(bs))), nil
		}
		return "", unsupported{"basic type " + t.String()}
	case *types.Slice:
		obj, err := x.idx(L[0])
		if err != nil {
			return "", err
		}
		ln, err := x.idx(L[2])
		if err != nil {
			return "", err
		}
		cp, err := x.idx(L[3])
		if err != nil {
			return "", err
		}
		if obj == 0 {
			return fmt.Sprintf("%s(nil)", x.typeStr(t)), nil
		}
		if ln > 128 || cp > 1<<16 {
			return "", unsupported{fmt.Sprintf("slice of length %d capacity %d in the model", ln, cp)}
		}
		off, err := x.idx(L[1])
		if err != nil {
			return "", err
		}
		if err := x.claim(obj, u.Elem(), where); err != nil {
			return "", err
		}
		var elems []string
		sl := slots(u.Elem())
		for i := int64(0); i < ln; i++ {
			ts, err := x.loadTerms(u.Elem(), m.ilit(obj), m.ilit(off+i*sl))
			if err != nil {
				return "", err
			}
			g, err := x.build(u.Elem(), ts, depth+1, fmt.Sprintf("%s[%d]", where, i))
			if err != nil {
				return "", err
			}
			elems = append(elems, g)
		}
		ts := x.typeStr(t)
		if ut, ok := t.(*types.Named); ok {
			_ = ut
			return fmt.Sprintf("%s(append(make(%s, 0, %d), %s))", ts, x.typeStr(t.Underlying()), cp, strings.Join(elems, ", ")), nil
		}
		if len(elems) == 0 {
			return fmt.Sprintf("make(%s, 0, %d)", ts, cp), nil
		}
		return fmt.Sprintf("append(make(%s, 0, %d), %s)", ts, cp, strings.Join(elems, ", ")), nil
	case *types.Pointer:
		obj, err := x.idx(L[0])
		if err != nil {
			return "", err
		}
		if obj == 0 {
			return fmt.Sprintf("(%s)(nil)", x.typeStr(t)), nil
		}
		off, err := x.idx(L[1])
		if err != nil {
			return "", err
		}
		if err := x.claim(obj, u.Elem(), where); err != nil {
			return "", err
		}
		ts, err := x.loadTerms(u.Elem(), m.ilit(obj), m.ilit(off))
		if err != nil {
			return "", err
		}
		g, err := x.build(u.Elem(), ts, depth+1, "*"+where)
		if err != nil {
			return "", err
		}
		return fmt.Sprintf("vrPtr(%s)", g), nil
	case *types.Struct:
		var fs []string
		k := 0
		for i := 0; i < u.NumFields(); i++ {
			f := u.Field(i)
			ls, ok := m.leafSorts(f.Type())
			if !ok {
				return "", unsupported{"field " + f.Name() + " of unrepresentable type"}
			}
			sub := L[k : k+len(ls)]
			k += len(ls)
			if f.Name() == "_" {
				continue
			}
			if !f.Exported() && f.Pkg() != x.pkg {
				return "", unsupported{"unexported field " + f.Name() + " of a type from another package"}
			}
			g, err := x.build(f.Type(), sub, depth+1, where+"."+f.Name())
			if err != nil {
				return "", err
			}
			fs = append(fs, f.Name()+": "+g)
		}
		return fmt.Sprintf("%s{%s}", x.typeStr(t), strings.Join(fs, ", ")), nil
	case *types.Interface:
		typ, err := x.idx(L[0])
		if err != nil {
			return "", err
		}
		if typ == 0 {
			return fmt.Sprintf("%s(nil)", x.typeStr(t)), nil
		}
		return "", unsupported{"non-nil interface value " + where + " in the model"}
	case *types.Map, *types.Chan, *types.Signature:
		obj, err := x.idx(L[0])
		if err != nil {
			return "", err
		}
		if obj == 0 {
			return fmt.Sprintf("(%s)(nil)", x.typeStr(t)), nil
		}
		return "", unsupported{"non-nil map/chan/func value " + where + " in the model"}
	case *types.Array:
		var elems []string
		es, _ := m.leafSorts(u.Elem())
		for i := int64(0); i < u.Len(); i++ {
			g, err := x.build(u.Elem(), L[int(i)*len(es):int(i+1)*len(es)], depth+1, fmt.Sprintf("%s[%d]", where, i))
			if err != nil {
				return "", err
			}
			elems = append(elems, g)
		}
		return fmt.Sprintf("%s{%s}", x.typeStr(t), strings.Join(elems, ", ")), nil
	}
	return "", unsupported{"type " + t.String()}
}

// preferences: nil for nilable leaves, short strings and slices
func (x *replayX) preferences(t types.Type, L []string, depth int) {
	if depth > 3 || len(L) == 0 {
		return
	}
	m := x.rc.M
	z := m.ilit(0)
	switch u := t.Underlying().(type) {
	case *types.Basic:
		if u.Info()&types.IsString != 0 {
			x.prefsSize = append(x.prefsSize, m.ile("(slen "+L[0]+")", m.ilit(12)))
		}
	case *types.Slice:
		x.prefsSize = append(x.prefsSize, m.ile(L[2], m.ilit(6)), m.ile(L[3], m.ilit(64)))
		if depth < 2 {
			sl := slots(u.Elem())
			for i := int64(0); i < 6; i++ {
				if ts, err := x.loadTerms(u.Elem(), L[0], m.iadd(L[1], m.ilit(i*sl))); err == nil {
					x.preferences(u.Elem(), ts, depth+2)
				}
			}
		}
	case *types.Interface:
		x.prefsNil = append(x.prefsNil, eq(L[0], z))
	case *types.Map, *types.Chan, *types.Signature:
		x.prefsNil = append(x.prefsNil, eq(L[0], z))
	case *types.Struct:
		k := 0
		for i := 0; i < u.NumFields(); i++ {
			ls, ok := m.leafSorts(u.Field(i).Type())
			if !ok {
				return
			}
			x.preferences(u.Field(i).Type(), L[k:k+len(ls)], depth+1)
			k += len(ls)
		}
	case *types.Pointer:
		if _, ok := u.Elem().Underlying().(*types.Struct); ok {
			ts, err := x.loadTerms(u.Elem(), L[0], L[1])
			if err == nil {
				x.preferences(u.Elem(), ts, depth+1)
			}
		}
	}
}

// ---- contract clause -> Go ----

type goCompiler struct {
	rc      *ReplayCtx
	params  map[string]bool
	n       int
	usesOld map[string]bool
	imports map[string]string
}

func cloneExpr(x ast.Expr, f func(ast.Expr) ast.Expr) ast.Expr {
	if x == nil {
		return nil
	}
	if r := f(x); r != nil {
		return r
	}
	switch n := x.(type) {
	case *ast.Ident:
		c := *n
		return &c
	case *ast.BasicLit:
		c := *n
		return &c
	case *ast.ParenExpr:
		return &ast.ParenExpr{X: cloneExpr(n.X, f)}
	case *ast.UnaryExpr:
		return &ast.UnaryExpr{Op: n.Op, X: cloneExpr(n.X, f)}
	case *ast.BinaryExpr:
		return &ast.BinaryExpr{Op: n.Op, X: cloneExpr(n.X, f), Y: cloneExpr(n.Y, f)}
	case *ast.CallExpr:
		c := &ast.CallExpr{Fun: cloneExpr(n.Fun, f)}
		for _, a := range n.Args {
			c.Args = append(c.Args, cloneExpr(a, f))
		}
		return c
	case *ast.IndexExpr:
		return &ast.IndexExpr{X: cloneExpr(n.X, f), Index: cloneExpr(n.Index, f)}
	case *ast.SliceExpr:
		return &ast.SliceExpr{X: cloneExpr(n.X, f), Low: cloneExpr(n.Low, f), High: cloneExpr(n.High, f), Max: cloneExpr(n.Max, f), Slice3: n.Slice3}
	case *ast.SelectorExpr:
		return &ast.SelectorExpr{X: cloneExpr(n.X, f), Sel: &ast.Ident{Name: n.Sel.Name}}
	case *ast.StarExpr:
		return &ast.StarExpr{X: cloneExpr(n.X, f)}
	case *ast.TypeAssertExpr:
		return &ast.TypeAssertExpr{X: cloneExpr(n.X, f), Type: n.Type}
	}
	return x
}

func callName(x ast.Expr) string {
	if c, ok := x.(*ast.CallExpr); ok {
		if id, ok := c.Fun.(*ast.Ident); ok {
			return id.Name
		}
	}
	return ""
}

// expand inlines spec functions and renames bound variables apart.
func (g *goCompiler) expand(x ast.Expr, depth int) (ast.Expr, error) {
	if depth > 12 {
		return nil, unsupported{"spec functions nested too deeply"}
	}
	var err error
	out := cloneExpr(x, func(n ast.Expr) ast.Expr {
		if err != nil {
			return n
		}
		c, ok := n.(*ast.CallExpr)
		if !ok {
			return nil
		}
		name := callName(c)
		switch name {
		case "all", "any":
			if len(c.Args) != 4 {
				err = unsupported{"malformed quantifier"}
				return n
			}
			bv, ok := c.Args[0].(*ast.Ident)
			if !ok {
				err = unsupported{"malformed quantifier"}
				return n
			}
			g.n++
			nv := fmt.Sprintf("%s_q%d", bv.Name, g.n)
			ren := func(e ast.Expr) ast.Expr {
				return cloneExpr(e, func(m ast.Expr) ast.Expr {
					if id, ok := m.(*ast.Ident); ok && id.Name == bv.Name {
						return &ast.Ident{Name: nv}
					}
					return nil
				})
			}
			lo, e1 := g.expand(c.Args[1], depth+1)
			hi, e2 := g.expand(c.Args[2], depth+1)
			body, e3 := g.expand(ren(c.Args[3]), depth+1)
			for _, e := range []error{e1, e2, e3} {
				if e != nil {
					err = e
					return n
				}
			}
			return &ast.CallExpr{Fun: &ast.Ident{Name: name}, Args: []ast.Expr{&ast.Ident{Name: nv}, lo, hi, body}}
		case "forall", "exists", "fresh", "sameobj", "objof":
			err = unsupported{"clause uses " + name + "(), which has no executable meaning"}
			return n
		}
		if sf, ok := g.rc.CS.Specs[name]; ok && name != "" {
			if sf.Uninterp || sf.Body == nil {
				err = unsupported{"clause uses the uninterpreted ghost function " + name}
				return n
			}
			if len(sf.Params) != len(c.Args) {
				err = unsupported{"spec arity"}
				return n
			}
			args := map[string]ast.Expr{}
			for i, p := range sf.Params {
				a, e := g.expand(c.Args[i], depth+1)
				if e != nil {
					err = e
					return n
				}
				args[p.Name] = a
			}
			// expand the body first (renames its bound variables), then substitute
			body, e := g.expand(sf.Body, depth+1)
			if e != nil {
				err = e
				return n
			}
			sub := cloneExpr(body, func(m ast.Expr) ast.Expr {
				if id, ok := m.(*ast.Ident); ok {
					if a, ok := args[id.Name]; ok {
						return &ast.ParenExpr{X: a}
					}
				}
				return nil
			})
			return &ast.ParenExpr{X: sub}
		}
		return nil
	})
	return out, err
}

func findIte(x ast.Expr) *ast.CallExpr {
	var found *ast.CallExpr
	ast.Inspect(x, func(n ast.Node) bool {
		if found != nil {
			return false
		}
		if c, ok := n.(*ast.CallExpr); ok {
			switch callName(c) {
			case "ite":
				found = c
				return false
			case "all", "any":
				// ites below a quantifier are lifted inside its body
				return false
			}
		}
		return true
	})
	return found
}

func replaceNode(x ast.Expr, old ast.Expr, nw ast.Expr) ast.Expr {
	return cloneExpr(x, func(n ast.Expr) ast.Expr {
		if n == old {
			return nw
		}
		return nil
	})
}

// emit prints a boolean or value expression as Go.
func (g *goCompiler) emit(x ast.Expr, inOld bool) (string, error) {
	switch n := x.(type) {
	case *ast.ParenExpr:
		s, err := g.emit(n.X, inOld)
		return "(" + s + ")", err
	case *ast.Ident:
		switch n.Name {
		case "MaxInt":
			g.imports["math"] = "math"
			return "math.MaxInt", nil
		case "MinInt":
			g.imports["math"] = "math"
			return "math.MinInt", nil
		}
		if g.rc.Ghosts[n.Name] {
			return "", unsupported{"clause reads the ghost variable " + n.Name}
		}
		if inOld && g.params[n.Name] {
			g.usesOld[n.Name] = true
			return n.Name + "__old", nil
		}
		return n.Name, nil
	case *ast.BasicLit:
		return n.Value, nil
	case *ast.UnaryExpr:
		s, err := g.emit(n.X, inOld)
		return "(" + n.Op.String() + s + ")", err
	case *ast.BinaryExpr:
		switch n.Op {
		case token.EQL, token.NEQ, token.LSS, token.LEQ, token.GTR, token.GEQ:
			if it := findIte(n); it != nil && len(it.Args) == 3 {
				a := replaceNode(n, it, it.Args[1])
				b := replaceNode(n, it, it.Args[2])
				c, e0 := g.emit(it.Args[0], inOld)
				as, e1 := g.emit(a, inOld)
				bs, e2 := g.emit(b, inOld)
				for _, e := range []error{e0, e1, e2} {
					if e != nil {
						return "", e
					}
				}
				return fmt.Sprintf("((%s) && (%s) || !(%s) && (%s))", c, as, c, bs), nil
			}
		}
		a, e1 := g.emit(n.X, inOld)
		b, e2 := g.emit(n.Y, inOld)
		if e1 != nil {
			return "", e1
		}
		if e2 != nil {
			return "", e2
		}
		return "(" + a + " " + n.Op.String() + " " + b + ")", nil
	case *ast.IndexExpr:
		a, e1 := g.emit(n.X, inOld)
		b, e2 := g.emit(n.Index, inOld)
		if e1 != nil {
			return "", e1
		}
		return a + "[" + b + "]", e2
	case *ast.SliceExpr:
		a, err := g.emit(n.X, inOld)
		if err != nil {
			return "", err
		}
		lo, hi := "", ""
		if n.Low != nil {
			if lo, err = g.emit(n.Low, inOld); err != nil {
				return "", err
			}
		}
		if n.High != nil {
			if hi, err = g.emit(n.High, inOld); err != nil {
				return "", err
			}
		}
		return a + "[" + lo + ":" + hi + "]", nil
	case *ast.SelectorExpr:
		a, err := g.emit(n.X, inOld)
		return a + "." + n.Sel.Name, err
	case *ast.StarExpr:
		a, err := g.emit(n.X, inOld)
		return "(*" + a + ")", err
	case *ast.TypeAssertExpr:
		a, err := g.emit(n.X, inOld)
		var tb strings.Builder
		writeExpr(&tb, n.Type)
		return a + ".(" + tb.String() + ")", err
	case *ast.CallExpr:
		name := callName(n)
		switch name {
		case "old":
			if len(n.Args) != 1 {
				return "", unsupported{"old()"}
			}
			return g.emit(n.Args[0], true)
		case "implies":
			a, e1 := g.emit(n.Args[0], inOld)
			b, e2 := g.emit(n.Args[1], inOld)
			if e1 != nil {
				return "", e1
			}
			return "(!(" + a + ") || (" + b + "))", e2
		case "iff":
			a, e1 := g.emit(n.Args[0], inOld)
			b, e2 := g.emit(n.Args[1], inOld)
			if e1 != nil {
				return "", e1
			}
			return "((" + a + ") == (" + b + "))", e2
		case "ite":
			// boolean-level ite
			c, e0 := g.emit(n.Args[0], inOld)
			a, e1 := g.emit(n.Args[1], inOld)
			b, e2 := g.emit(n.Args[2], inOld)
			for _, e := range []error{e0, e1, e2} {
				if e != nil {
					return "", e
				}
			}
			return fmt.Sprintf("((%s) && (%s) || !(%s) && (%s))", c, a, c, b), nil
		case "all", "any":
			v := n.Args[0].(*ast.Ident).Name
			lo, e1 := g.emit(n.Args[1], inOld)
			hi, e2 := g.emit(n.Args[2], inOld)
			body, e3 := g.emit(n.Args[3], inOld)
			for _, e := range []error{e1, e2, e3} {
				if e != nil {
					return "", e
				}
			}
			if name == "all" {
				return fmt.Sprintf("func() bool { for %s := int(%s); %s < int(%s); %s++ { if !(%s) { return false } }; return true }()", v, lo, v, hi, v, body), nil
			}
			return fmt.Sprintf("func() bool { for %s := int(%s); %s < int(%s); %s++ { if %s { return true } }; return false }()", v, lo, v, hi, v, body), nil
		}
		// ordinary call or conversion (len, int, string, package functions)
		f, err := g.emit(n.Fun, inOld)
		if err != nil {
			return "", err
		}
		var as []string
		for _, a := range n.Args {
			s, err := g.emit(a, inOld)
			if err != nil {
				return "", err
			}
			as = append(as, s)
		}
		return f + "(" + strings.Join(as, ", ") + ")", nil
	}
	return "", unsupported{fmt.Sprintf("expression form %T", x)}
}

func (g *goCompiler) compile(c *Clause) (string, error) {
	ex, err := g.expand(c.Expr, 0)
	if err != nil {
		return "", err
	}
	return g.emit(ex, false)
}

// ---- the replay itself ----

// runReplayTest injects the test into the package directory with an overlay (nothing is written to the repository),
// runs it and returns the combined output.
func runReplayTest(src, pkgDir, repo, testFile string) string {
	os.MkdirAll(filepath.Dir(testFile), 0o755)
	os.WriteFile(testFile, []byte(src), 0o644)
	target := filepath.Join(repo, pkgDir, "zz_verif_replay_test.go")
	ov, _ := json.Marshal(map[string]interface{}{"Replace": map[string]string{target: testFile}})
	ovFile := strings.TrimSuffix(testFile, "_replay_test.go") + "_overlay.json"
	os.WriteFile(ovFile, ov, 0o644)
	defer os.Remove(ovFile)
	cmd := exec.Command("/opt/veriftools/go1.26.8/bin/go", "test", "-overlay", ovFile, "-vet=off", "-timeout", "60s", "-count=1", "-v", "-run", "^TestVerifReplay$", "./"+pkgDir)
	cmd.Dir = repo
	cmd.Env = append(os.Environ(), "GOFLAGS=-mod=mod", "GOPROXY=off", "GOTOOLCHAIN=local", "GOSUMDB=off", "PATH=/opt/veriftools/go1.26.8/bin:"+os.Getenv("PATH"))
	var buf bytes.Buffer
	cmd.Stdout = &buf
	cmd.Stderr = &buf
	done := make(chan error, 1)
	if err := cmd.Start(); err != nil {
		return "go test could not be started: " + err.Error()
	}
	go func() { done <- cmd.Wait() }()
	select {
	case <-done:
	case <-time.After(150 * time.Second):
		cmd.Process.Kill()
		<-done
	}
	return buf.String()
}

// replayOutcome reads the VERIF-REPLAY lines: did the real code fail the way the obligation says it can?
func replayOutcome(out, expect string, noSafety bool) (lines []string, ran, confirmed bool) {
	for _, ln := range strings.Split(out, "\n") {
		if strings.Contains(ln, "VERIF-REPLAY") {
			lines = append(lines, strings.TrimSpace(ln))
		}
	}
	ran = len(lines) > 0
	panicked := strings.Contains(out, "VERIF-REPLAY panic:")
	switch {
	case expect == "panic" && panicked:
		confirmed = true
	case expect == "post" && strings.Contains(out, "VERIF-REPLAY post: false"):
		confirmed = true
	case expect == "post" && panicked && !noSafety:
		confirmed = true
	}
	return
}

func replayKindExpectsPanic(kind string) bool {
	switch kind {
	case "index", "slice", "div", "typeassert", "panic", "make", "nil", "shift":
		return true
	}
	return false
}

func replayModel(prop string, o *Obligation, dir string) *ReplayResult {
	rc := o.RC
	if rc == nil || rc.Fn == nil {
		return nil
	}
	if replayBudget <= 0 {
		return &ReplayResult{Output: "replay budget of this run used up (the first failing obligations were replayed)"}
	}
	fn := rc.Fn
	rr := &ReplayResult{}
	fail := func(format string, a ...interface{}) *ReplayResult {
		rr.Output = "not replayed: " + fmt.Sprintf(format, a...)
		return rr
	}
	if fn.Parent() != nil || fn.Pkg == nil || len(fn.FreeVars) > 0 {
		return fail("the function is a closure")
	}
	if fn.Signature.TypeParams() != nil || fn.Signature.RecvTypeParams() != nil || len(fn.TypeArgs()) > 0 {
		return fail("generic function")
	}
	expectsPanic := replayKindExpectsPanic(o.Kind)
	if !expectsPanic && o.Kind != "ensures" {
		return fail("obligations of kind %q have no directly observable outcome", o.Kind)
	}
	replayBudget--
	x := &replayX{rc: rc, pkg: fn.Pkg.Pkg, imports: map[string]string{}, objs: map[string]string{}}
	for _, p := range rc.Params {
		if !p.V.Bad {
			x.preferences(p.V.T, p.V.L, 0)
		}
	}
	// the same goal with preferences for a small model (asserted, so they only ever select among real models)
	var sess *smtSession
	verdict := ""
	var err error
	base := o.SMT
	if i := strings.LastIndex(base, "(check-sat)"); i >= 0 {
		base = base[:i]
	}
	// greedy: keep each preference that leaves the goal satisfiable (decided quickly); the rest are dropped
	accepted := ""
	deadline := time.Now().Add(40 * time.Second)
	os.MkdirAll(dir, 0o755)
	pf := filepath.Join(dir, "pref.smt2")
	for _, c := range append(append([]string{}, x.prefsNil...), x.prefsSize...) {
		if time.Now().After(deadline) {
			break
		}
		if strings.Contains(c, "@zero") {
			continue
		}
		os.WriteFile(pf, []byte(base+accepted+"(assert "+c+")\n(check-sat)\n"), 0o644)
		outb, _ := exec.Command("z3-new", "-T:4", pf).CombinedOutput()
		if parseVerdict(string(outb)) == "sat" {
			accepted += "(assert " + c + ")\n"
		}
	}
	os.Remove(pf)
	for _, q := range []string{base + accepted, base} {
		sess, verdict, err = startSession(q)
		if err != nil {
			return fail("solver session: %v", err)
		}
		if verdict == "sat" {
			break
		}
		sess.close()
		sess = nil
	}
	if sess == nil {
		return fail("the replay session answered %q where the deciding solver answered sat", verdict)
	}
	defer sess.close()
	x.s = sess
	var decls []string
	var names []string
	for i, p := range rc.Params {
		if p.V.Bad {
			return fail("parameter %s could not be modelled", p.Name)
		}
		name := p.Name
		if name == "" || name == "_" {
			name = fmt.Sprintf("vrArg%d", i)
		}
		g, err := x.build(p.V.T, p.V.L, 0, name)
		if err != nil {
			if _, ok := err.(unsupported); ok {
				return fail("parameter %s: %v", name, err)
			}
			return fail("reading the model: %v", err)
		}
		decls = append(decls, fmt.Sprintf("\t%s := %s\n\t_ = %s", name, g, name))
		names = append(names, name)
	}
	// postcondition
	gc := &goCompiler{rc: rc, params: map[string]bool{}, usesOld: map[string]bool{}, imports: x.imports}
	for _, n := range names {
		gc.params[n] = true
	}
	post := ""
	if o.Kind == "ensures" {
		if o.Clause == nil {
			return fail("no clause recorded")
		}
		post, err = gc.compile(o.Clause)
		if err != nil {
			return fail("postcondition not executable: %v", err)
		}
	}
	// call
	sig := fn.Signature
	var call string
	args := names
	if sig.Recv() != nil {
		call = names[0] + "." + fn.Name() + "(" + strings.Join(names[1:], ", ") + ")"
		args = names[1:]
	} else {
		call = fn.Name() + "(" + strings.Join(args, ", ") + ")"
	}
	if sig.Variadic() && len(args) > 0 {
		call = strings.TrimSuffix(call, ")") + "...)"
	}
	var resDecl, resAssign []string
	for i := 0; i < sig.Results().Len(); i++ {
		rn := rc.Results[i]
		resDecl = append(resDecl, fmt.Sprintf("\tvar %s %s\n\t_ = %s", rn, x.typeStr(sig.Results().At(i).Type()), rn))
		resAssign = append(resAssign, rn)
	}
	if sig.Results().Len() == 1 && rc.Results[0] != "result" {
		// "result" is always available as an alias
		resDecl = append(resDecl, "")
	}
	var b strings.Builder
	fmt.Fprintf(&b, "package %s\n\nimport (\n\t\"fmt\"\n\t\"testing\"\n", fn.Pkg.Pkg.Name())
	var olds []string
	for n := range gc.usesOld {
		olds = append(olds, n)
	}
	sort.Strings(olds)
	var ips []string
	for p := range x.imports {
		ips = append(ips, p)
	}
	sort.Strings(ips)
	for _, p := range ips {
		if p == "fmt" || p == "testing" {
			continue
		}
		fmt.Fprintf(&b, "\t%s %q\n", x.imports[p], p)
	}
	b.WriteString(")\n\nfunc vrPtr[T any](v T) *T { return &v }\n\n")
	b.WriteString("// vrCopy copies what old(...) may look at: the elements of a slice, the pointee of a pointer.\nfunc vrCopy[T any](v T) T {\n\tswitch x := any(v).(type) {\n\tcase []string:\n\t\treturn any(append([]string(nil), x...)).(T)\n\tcase []int:\n\t\treturn any(append([]int(nil), x...)).(T)\n\tcase []byte:\n\t\treturn any(append([]byte(nil), x...)).(T)\n\tcase []rune:\n\t\treturn any(append([]rune(nil), x...)).(T)\n\t}\n\treturn v\n}\n\n")
	fmt.Fprintf(&b, "// Replay of obligation %s\n// (%s)\nfunc TestVerifReplay(t *testing.T) {\n", o.Name, o.Descr)
	for _, d := range decls {
		b.WriteString(d + "\n")
	}
	for _, n := range olds {
		// pointers: copy the pointee
		var pt types.Type
		for _, p := range rc.Params {
			if p.Name == n {
				pt = p.V.T
			}
		}
		if ptr, ok := pt.Underlying().(*types.Pointer); ok {
			_ = ptr
			fmt.Fprintf(&b, "\t%s__old := %s\n\tif %s != nil {\n\t\tvrC := *%s\n\t\t%s__old = &vrC\n\t}\n", n, n, n, n, n)
		} else {
			fmt.Fprintf(&b, "\t%s__old := vrCopy(%s)\n", n, n)
		}
		fmt.Fprintf(&b, "\t_ = %s__old\n", n)
	}
	for _, d := range resDecl {
		if d != "" {
			b.WriteString(d + "\n")
		}
	}
	b.WriteString("\tvar vrPanic any\n\tfunc() {\n\t\tdefer func() { vrPanic = recover() }()\n\t\t")
	if len(resAssign) > 0 {
		b.WriteString(strings.Join(resAssign, ", ") + " = ")
	}
	b.WriteString(call + "\n\t}()\n")
	b.WriteString("\tif vrPanic != nil {\n\t\tfmt.Printf(\"VERIF-REPLAY panic: %v\\n\", vrPanic)\n\t\treturn\n\t}\n")
	for i, rn := range rc.Results {
		_ = i
		fmt.Fprintf(&b, "\tfmt.Printf(\"VERIF-REPLAY result %s = %%#v\\n\", %s)\n", rn, rn)
	}
	if post != "" {
		if sig.Results().Len() == 1 && rc.Results[0] != "result" {
			fmt.Fprintf(&b, "\tresult := %s\n\t_ = result\n", rc.Results[0])
		}
		b.WriteString("\tvar vrPost bool\n\tfunc() {\n\t\tdefer func() {\n\t\t\tif r := recover(); r != nil {\n\t\t\t\tfmt.Printf(\"VERIF-REPLAY post-panic: %v\\n\", r)\n\t\t\t}\n\t\t}()\n")
		fmt.Fprintf(&b, "\t\tvrPost = %s\n\t\tfmt.Printf(\"VERIF-REPLAY post: %%v\\n\", vrPost)\n\t}()\n", post)
	} else {
		b.WriteString("\tfmt.Println(\"VERIF-REPLAY returned normally\")\n")
	}
	b.WriteString("}\n")
	rr.Test = b.String()

	// inject with an overlay and run
	pkgDir := ""
	if pp := fn.Pkg.Pkg.Path(); strings.HasPrefix(pp, "mvdan.cc/sh/v3") {
		pkgDir = strings.TrimPrefix(strings.TrimPrefix(pp, "mvdan.cc/sh/v3"), "/")
	} else {
		return fail("package %s is outside the module", pp)
	}
	rr.PkgDir = pkgDir
	rr.Expect = "post"
	if expectsPanic {
		rr.Expect = "panic"
	}
	tbase := filepath.Join(dir, sanitize(o.Name))
	if len(tbase) > 180 {
		tbase = tbase[:180]
	}
	testFile := tbase + "_replay_test.go"
	out := runReplayTest(rr.Test, pkgDir, rc.Dir, testFile)
	lines, ran, confirmed := replayOutcome(out, rr.Expect, rc.NoSafety)
	rr.Ran = ran
	rr.NoSafety = rc.NoSafety
	if !rr.Ran {
		rr.Output = "replay test did not run: " + firstLines(out, 30)
		return rr
	}
	rr.Output = strings.Join(lines, "\n")
	rr.Confirmed = confirmed
	if rr.Confirmed {
		rr.Output += "\nCONFIRMED on the real code: the inputs above are in " + testFile
	} else {
		rr.Output += "\nthe model did not reproduce from the function's entry (the failing state lies inside a loop or behind an abstracted call)"
	}
	return rr
}
