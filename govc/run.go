package main

import (
	"fmt"
	"go/ast"
	"go/token"
	"go/types"
	"os"
	"sort"
	"strings"

	"golang.org/x/tools/go/ssa"
)

// FuncResult is what encoding one function produced.
type FuncResult struct {
	Name        string
	Obls        []*Obligation
	Abstracted  map[string]int
	Assumptions []string
	Trusted     []string
	Mode        string
	Bounded     bool
	Errs        []string
	NBlocks     int
	NInstrs     int
}

func funcKey(f *ssa.Function) string {
	if f == nil {
		return ""
	}
	if o := f.Origin(); o != nil {
		f = o
	}
	name := f.Name()
	if recv := f.Signature.Recv(); recv != nil {
		t := recv.Type()
		if p, ok := t.(*types.Pointer); ok {
			t = p.Elem()
		}
		if n, ok := t.(*types.Named); ok {
			pkg := ""
			if n.Obj().Pkg() != nil {
				pkg = n.Obj().Pkg().Path() + "."
			}
			return pkg + n.Obj().Name() + "." + name
		}
	}
	if f.Parent() != nil {
		return funcKey(f.Parent()) + "$" + strings.TrimPrefix(name, f.Parent().Name()+"$")
	}
	if f.Pkg != nil {
		return f.Pkg.Pkg.Path() + "." + name
	}
	if f.Object() != nil && f.Object().Pkg() != nil {
		return f.Object().Pkg().Path() + "." + name
	}
	return name
}

func shortFuncName(f *ssa.Function) string {
	k := funcKey(f)
	k = strings.TrimPrefix(k, "mvdan.cc/sh/v3/")
	return k
}

// encodeFunc encodes fn, first pruning the auto-proposed loop invariants that are not inductive (Houdini): every
// candidate is assumed at its loop head and checked for initiation and preservation; refuted candidates are dropped
// and the function is re-encoded until all remaining candidates are proved. The surviving candidates' obligations
// are part of the function's obligations, so they add nothing to the trusted base.
func encodeFunc(P *Program, CS *ContractSet, fn *ssa.Function, ct *Contract) *FuncResult {
	disabled := map[string]bool{}
	var res *FuncResult
	for round := 0; round < 5; round++ {
		res = encodeFuncOnce(P, CS, fn, ct, disabled)
		var cands []*Obligation
		for _, o := range res.Obls {
			if strings.HasPrefix(o.Kind, "auto-inv") {
				cands = append(cands, o)
			}
		}
		if len(cands) == 0 {
			return res
		}
		dir := scratchDir("houdini-" + sanitize(res.Name))
		dischargeAllOpt(cands, dir, 4, false, 16, false)
		// a candidate is dropped when it is refuted; one that is merely undecided within the short budget (a loaded
		// machine) gets a second, longer attempt first, so that which candidates survive does not depend on timing
		var again []*Obligation
		for _, o := range cands {
			if !o.Discharged() && o.Result.Verdict != "sat" {
				again = append(again, o)
			}
		}
		if len(again) > 0 && len(again) <= 8 {
			dischargeAllOpt(again, dir+"-retry", 12, false, 8, false)
		}
		if os.Getenv("GOVC_KEEP") == "" {
			os.RemoveAll(dir)
			os.RemoveAll(dir + "-retry")
		}
		changed := false
		for _, o := range cands {
			if !o.Discharged() && !disabled[o.Detail] {
				disabled[o.Detail] = true
				changed = true
			}
		}
		if !changed {
			return res
		}
	}
	return res
}

func encodeFuncOnce(P *Program, CS *ContractSet, fn *ssa.Function, ct *Contract, disabled map[string]bool) *FuncResult {
	res := &FuncResult{Name: shortFuncName(fn)}
	var known map[Sort]bool = map[Sort]bool{}
	var last *Enc
	for pass := 1; pass <= 2; pass++ {
		e := &Enc{P: P, CS: CS, Fn: fn, Ct: ct, Pkg: fn.Pkg, preOK: map[string]bool{}, vals: map[ssa.Value]Val{},
			reach: map[int]string{}, endSt: map[int]*State{}, knownSorts: known, pass: pass, strLits: map[string]string{},
			typeIDs: map[string]int{}, typeOfID: map[int]types.Type{}, globalIDs: map[string]int{}, abstracted: map[string]int{},
			skolemBounds: map[string][2]string{}, skolemOf: map[string]string{}, usedTrusted: map[string]bool{}, assumptions: map[string]bool{}, occ: map[string]int{}, loops: map[int]*loopInfo{},
			loopOf: map[int][]*loopInfo{}, dbg: map[string][]dbgRef{}, params: map[string]Val{}, fnName: res.Name, disabledCands: disabled}
		if e.Pkg == nil && fn.Parent() != nil {
			e.Pkg = fn.Parent().Pkg
		}
		if ct != nil {
			if ct.Mode == "bv" || ct.Mode == "bv64" {
				e.M = ModeBV
			}
			e.noSafety = ct.NoSafety
			e.mathInts = ct.Mode == "math"
		}
		func() {
			defer func() {
				if r := recover(); r != nil {
					e.errs = append(e.errs, fmt.Sprintf("encoder panic: %v", r))
					if debugPanics {
						panic(r)
					}
				}
			}()
			e.run()
		}()
		last = e
		if len(e.errs) > 0 {
			break
		}
	}
	e := last
	res.Obls = e.obls
	res.Abstracted = e.abstracted
	for a := range e.assumptions {
		res.Assumptions = append(res.Assumptions, a)
	}
	sort.Strings(res.Assumptions)
	for t := range e.usedTrusted {
		res.Trusted = append(res.Trusted, t)
	}
	sort.Strings(res.Trusted)
	res.Mode = map[Mode]string{ModeInt: "int", ModeBV: "bv"}[e.M]
	res.Errs = e.errs
	res.NBlocks = len(fn.Blocks)
	for _, b := range fn.Blocks {
		res.NInstrs += len(b.Instrs)
	}
	return res
}

var debugPanics = false

func (e *Enc) run() {
	fn := e.Fn
	if len(fn.Blocks) == 0 {
		e.errs = append(e.errs, "function has no body")
		return
	}
	m := e.M
	if m == ModeInt && e.mathInts {
		e.assumptions["integers are unbounded mathematical integers in "+e.fnName+" (sound for the wrapped machine result only where the function uses ring operations; see contract note)"] = true
	} else if m == ModeInt {
		e.assumptions["machine integers of width 64 treated as mathematical integers (no wrap-around) in "+e.fnName] = true
	}
	// entry state
	e.entry = &State{H: map[Sort]string{}}
	e.entry.Alloc = e.decl("alloc_0", SI)
	e.emitAssert(-1, m.ilt(m.ilit(100000), e.entry.Alloc))
	if e.pass == 2 {
		var ss []string
		for s := range e.knownSorts {
			ss = append(ss, string(s))
		}
		sort.Strings(ss)
		for _, s := range ss {
			e.heap(e.entry, Sort(s))
		}
	}
	// debug refs and defers
	for _, b := range fn.Blocks {
		for _, ins := range b.Instrs {
			switch x := ins.(type) {
			case *ssa.DebugRef:
				if id, ok := x.Expr.(interface{ String() string }); ok {
					_ = id
				}
				if obj := x.Object(); obj != nil {
					e.dbg[obj.Name()] = append(e.dbg[obj.Name()], dbgRef{b.Index, x.X, x.IsAddr, x.Pos()})
				}
			case *ssa.Defer:
				// a deferred call of a closure of this function (or of a function) whose contract says `pure` writes
				// nothing when it runs; anything else may write whatever a callee can reach
				callee := x.Common().StaticCallee()
				if callee == nil {
					if mc, ok := x.Common().Value.(*ssa.MakeClosure); ok {
						callee, _ = mc.Fn.(*ssa.Function)
					}
				}
				if ct := e.contractFor(funcKey(callee)); callee == nil || ct == nil || !ct.Pure {
					e.hasDefer = true
				} else if ct.Trusted != "" {
					e.assumptions["deferred call "+shortKey(funcKey(callee))+" writes no memory of the program (trusted): "+ct.Trusted] = true
				}
			}
		}
	}
	// parameters
	for _, p := range fn.Params {
		v := e.val(p)
		e.params[p.Name()] = v
	}
	for _, fv := range fn.FreeVars {
		v := e.val(fv)
		e.params[fv.Name()] = v
	}
	e.findLoops()
	e.remapLoops()
	e.computeNonEscaping()
	e.computeFreshEscapes()
	// requires
	e.curBlock = 0
	e.reach[0] = "true"
	e.curState = e.entry
	if e.Ct != nil {
		env := e.fnEnv(e.entry, nil)
		var reqs []string
		for _, c := range e.Ct.Requires {
			t := e.assume(-1, "true", c.Expr, func() *Env { return e.fnEnv(e.entry, nil) })
			reqs = append(reqs, t)
		}
		for _, c := range e.Ct.Assumes {
			t := e.evalHyp(c.Expr, env)
			e.emitAssert(-1, t)
			e.assumptions["assume in "+e.fnName+": "+c.Text] = true
		}
		for _, c := range e.Ct.ObjInv {
			t := e.evalHyp(c.Expr, env)
			e.emitAssert(-1, t)
			e.assumptions["object invariant relied on in "+e.fnName+" (re-established by every writer: onstore obligations and onstore-coverage): "+c.Text] = true
		}
		for _, ax := range e.CS.Axioms {
			_ = ax
		}
		if len(e.Ct.Requires) > 0 {
			e.cover("vacuity", "requires-satisfiable", "true")
		}
	}
	if e.Ct != nil && e.Ct.Stateless && e.pass == 2 {
		e.statelessObligations()
	}
	if e.Ct != nil && e.Ct.Trusted == "" && e.pass == 2 {
		e.ghostFrameObligations()
	}
	order := e.topoOrder()
	for _, b := range order {
		e.block(b)
	}
}

// statelessObligations: a `stateless` contract lets callers treat the result as a function of the argument values
// alone. That is checked here, structurally: parameters and result are plain data, the body reads no package variable,
// and every callee is itself under a stateless contract or is a library function known to be a function of its
// arguments (strings, strconv, unicode, utf8, math/bits, builtins).
func (e *Enc) statelessObligations() {
	okSig := true
	for _, p := range e.Fn.Params {
		if !plainData(p.Type(), 0) {
			okSig = false
		}
	}
	res := e.Fn.Signature.Results()
	for i := 0; i < res.Len(); i++ {
		if !plainData(res.At(i).Type(), 0) {
			okSig = false
		}
	}
	detail := ""
	okBody := true
	for _, b := range e.Fn.Blocks {
		for _, ins := range b.Instrs {
			var ops []*ssa.Value
			for _, op := range ins.Operands(ops) {
				if op != nil && *op != nil {
					if g, isGlobal := (*op).(*ssa.Global); isGlobal {
						okBody = false
						detail = "reads or writes the package variable " + g.Name()
					}
				}
			}
			if c, ok := ins.(ssa.CallInstruction); ok {
				if _, isBuiltin := c.Common().Value.(*ssa.Builtin); isBuiltin {
					continue
				}
				callee, key := e.calleeOf(c)
				if ct := e.contractFor(key); ct != nil && (ct.Stateless || (ct.Trusted != "" && ct.Pure)) {
					continue
				}
				if callee != nil && callee.Pkg != nil {
					switch callee.Pkg.Pkg.Path() {
					case "strings", "strconv", "unicode", "unicode/utf8", "math/bits", "math":
						continue
					}
				}
				okBody = false
				detail = "calls " + key + ", which is not known to be a function of its arguments"
			}
		}
	}
	for _, x := range []struct {
		name, descr string
		ok          bool
	}{{"signature", "parameters and results are plain data (no references)", okSig}, {"body", "no package variable is accessed and every callee is a function of its arguments. " + detail, okBody}} {
		e.obls = append(e.obls, &Obligation{Name: e.fnName + "#stateless@" + x.name, Func: e.fnName, Kind: "stateless", Backend: "structural", OK: x.ok, Descr: x.descr, Detail: detail})
	}
}

func (e *Enc) topoOrder() []*ssa.BasicBlock {
	fn := e.Fn
	seen := map[int]bool{}
	var post []*ssa.BasicBlock
	var dfs func(b *ssa.BasicBlock)
	dfs = func(b *ssa.BasicBlock) {
		seen[b.Index] = true
		for _, s := range b.Succs {
			if e.isBackEdge(b, s) || seen[s.Index] {
				continue
			}
			dfs(s)
		}
		post = append(post, b)
	}
	dfs(fn.Blocks[0])
	for i, j := 0, len(post)-1; i < j; i, j = i+1, j-1 {
		post[i], post[j] = post[j], post[i]
	}
	return post
}

func (e *Enc) findLoops() {
	fn := e.Fn
	heads := map[int]*loopInfo{}
	for _, b := range fn.Blocks {
		for _, s := range b.Succs {
			if e.isBackEdge(b, s) {
				li := heads[s.Index]
				if li == nil {
					li = &loopInfo{head: s, blocks: map[int]bool{s.Index: true}}
					heads[s.Index] = li
				}
				li.backs = append(li.backs, b)
				// natural loop: blocks reaching b without passing through s
				var stack []*ssa.BasicBlock
				if !li.blocks[b.Index] {
					li.blocks[b.Index] = true
					stack = append(stack, b)
				}
				for len(stack) > 0 {
					x := stack[len(stack)-1]
					stack = stack[:len(stack)-1]
					for _, p := range x.Preds {
						if !li.blocks[p.Index] {
							li.blocks[p.Index] = true
							stack = append(stack, p)
						}
					}
				}
			}
		}
	}
	var idx []int
	for i := range heads {
		idx = append(idx, i)
	}
	sort.Ints(idx)
	for n, i := range idx {
		heads[i].ordinal = n + 1
		e.loops[i] = heads[i]
	}
	for _, i := range idx {
		for bi := range heads[i].blocks {
			e.loopOf[bi] = append(e.loopOf[bi], heads[i])
		}
	}
}

// edgeCond is the condition under which control goes from p to s (given p was reached).
func (e *Enc) edgeCond(p, s *ssa.BasicBlock) string {
	if iff, ok := lastInstr(p).(*ssa.If); ok {
		c := e.val(iff.Cond)
		if c.Bad {
			return "true"
		}
		if p.Succs[0] == s && p.Succs[1] == s {
			return "true"
		}
		if p.Succs[0] == s {
			return c.L[0]
		}
		return not(c.L[0])
	}
	return "true"
}

func (e *Enc) block(b *ssa.BasicBlock) {
	m := e.M
	e.curBlock = b.Index
	// forward predecessors that were processed
	type inc struct {
		p    *ssa.BasicBlock
		cond string
		st   *State
		idx  int
	}
	var incs []inc
	for i, p := range b.Preds {
		if e.isBackEdge(p, b) {
			continue
		}
		st, ok := e.endSt[p.Index]
		if !ok {
			continue
		}
		incs = append(incs, inc{p, and(e.reach[p.Index], e.edgeCond(p, b)), st, i})
	}
	var st *State
	if b.Index == 0 {
		st = e.entry.clone()
		e.reach[0] = "true"
	} else {
		if len(incs) == 0 {
			// unreachable (e.g. recover block)
			e.reach[b.Index] = "false"
			e.endSt[b.Index] = e.entry.clone()
			return
		}
		var rs []string
		for _, in := range incs {
			rs = append(rs, in.cond)
		}
		rname := fmt.Sprintf("reach_%d", b.Index)
		e.emitDecl(fmt.Sprintf("(define-fun %s () Bool %s)", rname, or(rs...)))
		e.reach[b.Index] = rname
		// merge states
		st = &State{H: map[Sort]string{}}
		sorts := map[Sort]bool{}
		for _, in := range incs {
			for s := range in.st.H {
				sorts[s] = true
			}
		}
		var ss []string
		for s := range sorts {
			ss = append(ss, string(s))
		}
		sort.Strings(ss)
		for _, s0 := range ss {
			s := Sort(s0)
			same := true
			first := e.heap(incs[0].st, s)
			for _, in := range incs[1:] {
				if e.heap(in.st, s) != first {
					same = false
				}
			}
			if same {
				st.H[s] = first
				continue
			}
			nh := e.fresh("H_" + s0 + "_j")
			e.emitDecl(fmt.Sprintf("(declare-const %s %s)", nh, e.heapSort(s)))
			for _, in := range incs {
				e.emitAssert(-1, implies(in.cond, eq(nh, e.heap(in.st, s))))
			}
			st.H[s] = nh
		}
		sameA := true
		for _, in := range incs[1:] {
			if in.st.Alloc != incs[0].st.Alloc {
				sameA = false
			}
		}
		if sameA {
			st.Alloc = incs[0].st.Alloc
		} else {
			na := e.decl(e.fresh("alloc_j"), SI)
			for _, in := range incs {
				e.emitAssert(-1, implies(in.cond, eq(na, in.st.Alloc)))
			}
			st.Alloc = na
		}
	}
	e.curState = st
	// incoming phi values along forward edges
	phiIn := map[ssa.Value]Val{}
	for _, ins := range b.Instrs {
		phi, ok := ins.(*ssa.Phi)
		if !ok {
			break
		}
		var v Val
		ls, okS := m.leafSorts(phi.Type())
		if !okS {
			phiIn[phi] = Val{T: phi.Type(), Bad: true}
			continue
		}
		bad := false
		var vs []Val
		for _, in := range incs {
			x := e.val(phi.Edges[in.idx])
			if x.Bad || len(x.L) != len(ls) {
				bad = true
			}
			vs = append(vs, x)
		}
		if bad || len(vs) == 0 {
			phiIn[phi] = Val{T: phi.Type(), Bad: true}
			continue
		}
		v = Val{T: phi.Type()}
		for li := range ls {
			t := vs[len(vs)-1].L[li]
			for k := len(vs) - 2; k >= 0; k-- {
				t = ite(incs[k].cond, vs[k].L[li], t)
			}
			v.L = append(v.L, t)
		}
		phiIn[phi] = v
	}
	if li := e.loops[b.Index]; li != nil {
		e.loopHead(li, st, phiIn)
	} else {
		for phi, v := range phiIn {
			if v.Bad {
				e.vals[phi] = e.havocVal(phi.Type(), "phi")
			}
		}
		for _, ins := range b.Instrs {
			phi, ok := ins.(*ssa.Phi)
			if !ok {
				break
			}
			if v := phiIn[phi]; !v.Bad {
				e.bind(phi, v)
			}
		}
	}
	for _, ins := range b.Instrs {
		if _, ok := ins.(*ssa.Phi); ok {
			continue
		}
		e.exec(ins, st)
	}
	e.endSt[b.Index] = st
	// back edges out of this block
	for _, s := range b.Succs {
		if e.isBackEdge(b, s) {
			e.backEdge(b, s, st)
		}
	}
}

// loopModifies analyses what the loop may write.
type loopMods struct {
	all    bool
	sorts  map[Sort][]string // sort -> base object terms (nil entry with "*" means unknown base)
	unk    map[Sort]bool
	allocs bool
	// cells: writes known at cell granularity (a field of a struct reached through a loop-invariant pointer, or the
	// field/slice targets of a callee's modifies clause with loop-invariant arguments): obj, [lo, hi)
	cells map[Sort][][3]string
	// ghostCells: some recorded cell belongs to a ghost variable (updated by a callee's contract inside the loop)
	ghostCells bool
	// fresh: objects allocated inside the loop are written in this sort (they did not exist at loop entry, so the
	// frame for pre-existing objects still holds)
	fresh map[Sort]bool
}

func (e *Enc) loopModifies(li *loopInfo) *loopMods {
	lm := &loopMods{sorts: map[Sort][]string{}, unk: map[Sort]bool{}, cells: map[Sort][][3]string{}, fresh: map[Sort]bool{}}
	inLoop := func(v ssa.Value) bool {
		if ins, ok := v.(ssa.Instruction); ok && ins.Block() != nil {
			return li.blocks[ins.Block().Index]
		}
		return false
	}
	var baseOf func(v ssa.Value) (string, bool)
	baseOf = func(v ssa.Value) (string, bool) {
		switch x := v.(type) {
		case *ssa.IndexAddr:
			if !inLoop(x.X) {
				b := e.val(x.X)
				if !b.Bad {
					return b.L[0], true
				}
				return "", false
			}
			return baseOf(x.X)
		case *ssa.FieldAddr:
			if !inLoop(x.X) {
				b := e.val(x.X)
				if !b.Bad {
					return b.L[0], true
				}
				return "", false
			}
			return baseOf(x.X)
		case *ssa.Slice:
			if !inLoop(x.X) {
				b := e.val(x.X)
				if !b.Bad {
					return b.L[0], true
				}
			}
			return "", false
		case *ssa.Alloc:
			if !inLoop(x) {
				b := e.val(x)
				return b.L[0], true
			}
			// allocated in the loop: a fresh object each iteration (it did not exist at loop entry)
			return "@fresh", true
		}
		if !inLoop(v) {
			b := e.val(v)
			if !b.Bad && len(b.L) >= 1 {
				if _, ok := v.Type().Underlying().(*types.Pointer); ok {
					return b.L[0], true
				}
			}
		}
		return "", false
	}
	addStore := func(t types.Type, addr ssa.Value) {
		sorts := map[Sort]bool{}
		e.allSorts(t, sorts)
		if fa, isFA := addr.(*ssa.FieldAddr); isFA && !inLoop(fa.X) {
			if b := e.val(fa.X); !b.Bad && len(b.L) == 2 {
				if stt, isStruct := derefType(fa.X.Type()).Underlying().(*types.Struct); isStruct {
					lo := e.M.iadd(b.L[1], e.M.ilit(fieldOffset(stt, fa.Field)))
					hi := e.M.iadd(lo, e.M.ilit(slots(stt.Field(fa.Field).Type())))
					for s := range sorts {
						lm.cells[s] = append(lm.cells[s], [3]string{b.L[0], lo, hi})
					}
					return
				}
			}
		}
		if ia, isIA := addr.(*ssa.IndexAddr); isIA && !inLoop(ia.X) {
			// an element of a slice that does not change in the loop: the write stays inside the slice's cells
			if sl, isSlice := ia.X.Type().Underlying().(*types.Slice); isSlice {
				if b := e.val(ia.X); !b.Bad && len(b.L) == 4 {
					hi := e.M.iadd(b.L[1], e.M.imul(b.L[2], e.M.ilit(slots(sl.Elem()))))
					for s := range sorts {
						lm.cells[s] = append(lm.cells[s], [3]string{b.L[0], b.L[1], hi})
					}
					return
				}
			}
		}
		base, ok := baseOf(addr)
		for s := range sorts {
			if ok && base == "@fresh" {
				lm.fresh[s] = true
			} else if ok {
				lm.sorts[s] = append(lm.sorts[s], base)
			} else {
				lm.unk[s] = true
				if _, has := lm.sorts[s]; !has {
					lm.sorts[s] = nil
				}
			}
		}
	}
	for bi := range li.blocks {
		for _, ins := range e.Fn.Blocks[bi].Instrs {
			switch x := ins.(type) {
			case *ssa.Store:
				addStore(derefType(x.Addr.Type()), x.Addr)
			case *ssa.Alloc, *ssa.MakeSlice, *ssa.MakeMap, *ssa.MakeClosure, *ssa.MakeChan, *ssa.MakeInterface:
				lm.allocs = true
				if a, ok := x.(*ssa.Alloc); ok {
					// zero-initialisation writes the new object
					sorts := map[Sort]bool{}
					e.allSorts(derefType(a.Type()), sorts)
					for s := range sorts {
						lm.fresh[s] = true
					}
				}
				if a, ok := x.(*ssa.MakeSlice); ok {
					sorts := map[Sort]bool{}
					e.allSorts(a.Type().Underlying().(*types.Slice).Elem(), sorts)
					for s := range sorts {
						lm.fresh[s] = true
					}
				}
			case *ssa.Convert:
				if _, ok := x.Type().Underlying().(*types.Slice); ok {
					lm.allocs = true
					sorts := map[Sort]bool{}
					e.allSorts(x.Type().Underlying().(*types.Slice).Elem(), sorts)
					for s := range sorts {
						lm.fresh[s] = true // the conversion allocates a new backing array
					}
				}
			case ssa.CallInstruction:
				lm.allocs = true
				if os.Getenv("GOVC_NOCELLS") == "" && e.callCells(x, inLoop, lm) {
					continue
				}
				// whatever else the call writes, the ghost variables its contract updates change in the loop (they are
				// exempt from the havoc of everything a callee can reach, so they must be recorded one by one)
				e.ghostCellsOf(x, lm)
				eff := e.callEffect(x)
				if eff.all {
					lm.all = true
				}
				for s := range eff.sorts {
					lm.unk[s] = true
					if _, has := lm.sorts[s]; !has {
						lm.sorts[s] = nil
					}
				}
			case *ssa.Next:
				// range over a string: the iterator object's position cell advances
				if x.IsString {
					if inLoop(x.Iter) {
						lm.fresh[SIter] = true // the iterator itself is created inside this loop (a nested range)
					} else if it, ok := e.vals[x.Iter]; ok && !it.Bad && len(it.L) == 1 {
						lm.cells[SIter] = append(lm.cells[SIter], [3]string{it.L[0], e.M.ilit(0), e.M.ilit(1)})
					}
				}
			case *ssa.Range:
				if bt, ok := x.X.Type().Underlying().(*types.Basic); ok && bt.Info()&types.IsString != 0 {
					lm.fresh[SIter] = true
					lm.allocs = true
				}
			case *ssa.MapUpdate, *ssa.Send:
				// maps are not modelled in the heap
			case *ssa.RunDefers:
				if e.hasDefer {
					lm.all = true
				}
			}
		}
	}
	return lm
}

// callCells: a call of a contracted function all of whose modifies targets are fields or slice elements reached from
// arguments that do not change in the loop: its writes are recorded as cell ranges. Reports whether that was possible.
func (e *Enc) callCells(c ssa.CallInstruction, inLoop func(ssa.Value) bool, lm *loopMods) bool {
	callee, key := e.calleeOf(c)
	ct := e.contractFor(key)
	if ct == nil || ct.ModHeap || noFrameClaimed(ct) {
		return false
	}
	if ct.Pure {
		return true
	}
	com := c.Common()
	var ssaArgs []ssa.Value
	if com.IsInvoke() {
		ssaArgs = append(ssaArgs, com.Value)
	}
	ssaArgs = append(ssaArgs, com.Args...)
	var pnames []string
	if callee != nil {
		f := callee
		if o := f.Origin(); o != nil {
			f = o
		}
		for _, p := range f.Params {
			pnames = append(pnames, p.Name())
		}
	}
	if len(ct.Params) == len(ssaArgs) {
		pnames = ct.Params
	}
	if len(pnames) != len(ssaArgs) {
		return false
	}
	// a slice argument made in the loop from an array field of a loop-invariant struct pointer (p.readBuf[left:]):
	// its cells lie inside that field
	fieldOfSlice := func(v ssa.Value) (obj, lo, hi string, ok bool) {
		sl, isSl := v.(*ssa.Slice)
		if !isSl {
			return "", "", "", false
		}
		fa, isFA := sl.X.(*ssa.FieldAddr)
		if !isFA || inLoop(fa.X) {
			return "", "", "", false
		}
		b := e.val(fa.X)
		stt, isStruct := derefType(fa.X.Type()).Underlying().(*types.Struct)
		if b.Bad || len(b.L) != 2 || !isStruct {
			return "", "", "", false
		}
		lo = e.M.iadd(b.L[1], e.M.ilit(fieldOffset(stt, fa.Field)))
		return b.L[0], lo, e.M.iadd(lo, e.M.ilit(slots(stt.Field(fa.Field).Type()))), true
	}
	vars := map[string]Val{}
	argOf := map[string]ssa.Value{}
	for i, a := range ssaArgs {
		argOf[pnames[i]] = a
		if inLoop(a) {
			continue
		}
		v := e.val(a)
		if v.Bad {
			continue
		}
		vars[pnames[i]] = v
	}
	pkg := e.Pkg
	if callee != nil && callee.Pkg != nil {
		pkg = callee.Pkg
	}
	st := e.curState
	if st == nil {
		st = e.entry
	}
	env := &Env{e: e, vars: vars, st: st, old: st, pkg: pkg}
	type rng struct {
		sorts map[Sort]bool
		cell  [3]string
	}
	var out []rng
	for _, mc := range ct.Modifies {
		if id, ok := mc.Expr.(*ast.Ident); ok {
			if gt, isGhost := e.CS.Ghosts[id.Name]; isGhost {
				// a ghost variable the callee's contract updates: its cells change in the loop
				t := e.resolveType(pkg, gt)
				if t == nil {
					t = e.resolveType(e.Pkg, gt)
				}
				if t == nil {
					return false
				}
				sorts := map[Sort]bool{}
				e.allSorts(t, sorts)
				out = append(out, rng{sorts, [3]string{e.ghostObj(id.Name), e.M.ilit(0), e.M.ilit(slots(t))}})
				lm.ghostCells = true
				continue
			}
		}
		// a target rooted at an argument that is an object allocated inside the loop: a fresh object is written
		if root := modRootIdent(mc.Expr); root != "" {
			if av := argOf[root]; av != nil && inLoop(av) {
				if al, isAlloc := av.(*ssa.Alloc); isAlloc {
					sorts := map[Sort]bool{}
					if c, isCall := mc.Expr.(*ast.CallExpr); isCall && callNameOf(c) == "bstr" {
						sorts[SStr] = true
					} else {
						e.allSorts(derefType(al.Type()), sorts)
					}
					for s := range sorts {
						lm.fresh[s] = true
					}
					continue
				}
			}
		}
		if ix, isIx := mc.Expr.(*ast.IndexExpr); isIx {
			// x[*]: only for a slice argument cut from an array field of an invariant struct
			id, isID := ix.X.(*ast.Ident)
			if !isID || argOf[id.Name] == nil {
				return false
			}
			obj, lo, hi, ok := fieldOfSlice(argOf[id.Name])
			if !ok {
				return false
			}
			sorts := map[Sort]bool{}
			if sl, isSlice := argOf[id.Name].Type().Underlying().(*types.Slice); isSlice {
				e.allSorts(sl.Elem(), sorts)
			}
			out = append(out, rng{sorts, [3]string{obj, lo, hi}})
			continue
		}
		save := len(e.errs)
		obj, off, ft, ok := e.evalModField(mc, env)
		e.errs = e.errs[:save]
		if !ok {
			return false
		}
		lo, hi := e.modRange(off, ft)
		sorts := map[Sort]bool{}
		e.allSorts(ft, sorts)
		out = append(out, rng{sorts, [3]string{obj, lo, hi}})
	}
	for _, r := range out {
		for s := range r.sorts {
			lm.cells[s] = append(lm.cells[s], r.cell)
		}
	}
	return true
}

// modRootIdent: the parameter a modifies target is rooted at (b in bstr(b), p in p.f, x in x[*], p in *p).
func modRootIdent(x ast.Expr) string {
	switch n := x.(type) {
	case *ast.Ident:
		return n.Name
	case *ast.CallExpr:
		if len(n.Args) == 1 {
			return modRootIdent(n.Args[0])
		}
	case *ast.SelectorExpr:
		return modRootIdent(n.X)
	case *ast.IndexExpr:
		return modRootIdent(n.X)
	case *ast.StarExpr:
		return modRootIdent(n.X)
	case *ast.ParenExpr:
		return modRootIdent(n.X)
	}
	return ""
}

func (e *Enc) loopHead(li *loopInfo, st *State, phiIn map[ssa.Value]Val) {
	m := e.M
	b := li.head
	reach := e.reach[b.Index]
	li.preState = st.clone()
	lname := fmt.Sprintf("loop%d", li.cord())
	invs := e.loopInvariants(li)
	// 1. initiation
	if len(invs) > 0 {
		e.inlineSubst = map[ssa.Value]Val{}
		for phi, v := range phiIn {
			if !v.Bad {
				e.inlineSubst[phi] = v
			}
		}
		e.inlineHead, e.inlineState = b, st
		env := e.loopEnv(li, st)
		for i, c := range invs {
			t := e.evalGoal(c.Expr, env)
			e.oblige("inv-init", lname+"."+clauseLabel(c, i), b.Instrs[0].Pos(), reach, t, "loop invariant holds on entry: "+c.Text)
		}
		e.inlineSubst, e.inlineHead, e.inlineState = nil, nil, nil
	}
	// 2. havoc what the loop modifies
	lm := e.loopModifies(li)
	anyUnknown := false
	for s := range lm.sorts {
		if lm.unk[s] || len(lm.sorts[s]) == 0 {
			anyUnknown = true
		}
	}
	if lm.all || (anyUnknown && lm.ghostCells) {
		// a call that may write anything (or a write through an unknown base): everything a callee can reach becomes
		// arbitrary. What havocAll keeps (ghost variables, locals whose address does not escape, objects declared
		// stable) is then made arbitrary as well wherever the loop itself writes it: the known store bases and the
		// cells recorded from stores and from callee contracts.
		e.curInstr = b.Instrs[0]
		e.havocAll(st)
		var ks []string
		for s := range lm.sorts {
			ks = append(ks, string(s))
		}
		sort.Strings(ks)
		for _, s0 := range ks {
			seen := map[string]bool{}
			for _, bo := range lm.sorts[Sort(s0)] {
				if !seen[bo] {
					seen[bo] = true
					e.havocObj(st, Sort(s0), bo)
				}
			}
		}
		ks = nil
		for s := range lm.cells {
			ks = append(ks, string(s))
		}
		sort.Strings(ks)
		for _, s0 := range ks {
			s := Sort(s0)
			for _, c := range lm.cells[s] {
				h := e.heap(st, s)
				arr := e.fresh("A_" + s0)
				e.emitDecl(fmt.Sprintf("(declare-const %s (Array %s %s))", arr, m.smtSort(SI), m.smtSort(s)))
				e.emitAssert(-1, fmt.Sprintf("(forall ((k %s)) (! (=> (not (and %s %s)) (= (select %s k) (select (select %s %s) k))) :pattern ((select %s k))))",
					m.smtSort(SI), m.ile(c[1], "k"), m.ilt("k", c[2]), arr, h, c[0], arr))
				nh := e.fresh("H_" + s0)
				e.emitDecl(fmt.Sprintf("(define-fun %s () %s (store %s %s %s))", nh, e.heapSort(s), h, c[0], arr))
				st.H[s] = nh
			}
		}
	} else {
		sortSet := map[string]bool{}
		for s := range lm.sorts {
			sortSet[string(s)] = true
		}
		for s := range lm.cells {
			sortSet[string(s)] = true
		}
		for s := range lm.fresh {
			sortSet[string(s)] = true
		}
		var ss []string
		for s := range sortSet {
			ss = append(ss, s)
		}
		sort.Strings(ss)
		for _, s0 := range ss {
			s := Sort(s0)
			old := e.heap(st, s)
			e.havocSort(st, s)
			_, hasWhole := lm.sorts[s]
			if lm.unk[s] || (hasWhole && len(lm.sorts[s]) == 0) {
				// unknown bases: nothing is known about this component
				continue
			}
			// frame: objects other than the store bases are unchanged; of the objects written at cell granularity
			// only those cells change
			I := m.smtSort(SI)
			var ne []string
			if lm.fresh[s] {
				// objects allocated in the loop are written too: the frame speaks about pre-existing objects only
				ne = append(ne, m.ilt("o", li.preState.Alloc))
			}
			seen := map[string]bool{}
			for _, bo := range lm.sorts[s] {
				if !seen[bo] {
					seen[bo] = true
					ne = append(ne, not(eq("o", bo)))
				}
			}
			cellObjs := map[string]bool{}
			var cellOrder []string
			for _, c := range lm.cells[s] {
				if !seen[c[0]] && !cellObjs[c[0]] {
					cellObjs[c[0]] = true
					cellOrder = append(cellOrder, c[0])
					ne = append(ne, not(eq("o", c[0])))
				}
			}
			e.emitAssert(-1, fmt.Sprintf("(forall ((o %s)) (! (=> %s (= (select %s o) (select %s o))) :pattern ((select %s o))))", I, and(ne...), st.H[s], old, st.H[s]))
			for _, co := range cellOrder {
				var outside []string
				for _, c := range lm.cells[s] {
					if c[0] == co {
						outside = append(outside, not(and(m.ile(c[1], "k"), m.ilt("k", c[2]))))
					} else {
						outside = append(outside, not(and(eq(c[0], co), m.ile(c[1], "k"), m.ilt("k", c[2]))))
					}
				}
				// an object that is also a whole-object base under another name keeps nothing
				var notWhole []string
				for _, bo := range lm.sorts[s] {
					notWhole = append(notWhole, not(eq(co, bo)))
				}
				e.emitAssert(-1, implies(and(notWhole...), fmt.Sprintf("(forall ((k %s)) (! (=> %s (= (select (select %s %s) k) (select (select %s %s) k))) :pattern ((select (select %s %s) k))))",
					I, and(outside...), st.H[s], co, old, co, st.H[s], co)))
			}
		}
		if lm.allocs {
			e.bumpAlloc(st)
		}
	}
	// fresh phi values
	for _, ins := range b.Instrs {
		phi, ok := ins.(*ssa.Phi)
		if !ok {
			break
		}
		v := e.havocVal(phi.Type(), "v_"+sanitize(phi.Name())+"_it")
		e.vals[phi] = v
		e.emitAssert(-1, e.typeFacts(v, st))
		// the address of a non-escaping local never flows into a phi (computeNonEscaping counts that as an escape)
		e.emitAssert(-1, e.notLocal(v))
	}
	// auto invariants (monotone counters): phi >= init when the back-edge value is phi + positive constant
	e.autoInvariants(li, phiIn, st)
	// 3. assume invariants
	if len(invs) > 0 {
		e.inlineSubst = map[ssa.Value]Val{}
		e.inlineHead, e.inlineState = b, st
		env := e.loopEnv(li, st)
		stc := st.clone()
		for _, c := range invs {
			e.assume(b.Index, reach, c.Expr, func() *Env {
				e.inlineSubst = map[ssa.Value]Val{}
				e.inlineHead, e.inlineState = b, stc
				return e.loopEnv(li, stc)
			})
		}
		if dc, ok := e.Ct.LoopDec[li.cord()]; ok {
			d := e.evalExpr(dc.Expr, env)
			if !d.Bad && len(d.L) == 1 {
				li.decTerm = e.def(e.fresh("variant"), SI, e.coerceInt(d, SI))
				li.decUnsigned = false
				if d.T != nil {
					if bt, ok := d.T.Underlying().(*types.Basic); ok {
						if _, signed := intBits(bt); !signed {
							li.decUnsigned = true
						}
					}
				}
			}
		}
		e.inlineSubst, e.inlineHead, e.inlineState = nil, nil, nil
	}
	li.headState = st.clone()
}

func clauseLabel(c Clause, i int) string {
	if c.Label != "" {
		return c.Label
	}
	return fmt.Sprintf("%d", i+1)
}

func (e *Enc) loopInvariants(li *loopInfo) []Clause {
	if e.Ct == nil {
		return nil
	}
	return e.Ct.LoopInv[li.cord()]
}

// autoInvariants: for phi with a constant initial value c and back-edge values of the form phi+k (k>0 const),
// phi >= c is inductive by construction; symmetric for decrements.
func (e *Enc) autoInvariants(li *loopInfo, phiIn map[ssa.Value]Val, st *State) {
	m := e.M
	b := li.head
	e.candidateInvariants(li, phiIn, st)
	for _, ins := range b.Instrs {
		phi, ok := ins.(*ssa.Phi)
		if !ok {
			break
		}
		if !isInteger(phi.Type()) {
			continue
		}
		bt := phi.Type().Underlying().(*types.Basic)
		_, signed := intBits(bt)
		dir := 0
		okAll := true
		for i, p := range b.Preds {
			if !e.isBackEdge(p, b) {
				continue
			}
			bo, isBin := phi.Edges[i].(*ssa.BinOp)
			if !isBin || bo.X != ssa.Value(phi) {
				okAll = false
				break
			}
			c, isC := constOf(bo.Y)
			if !isC || c.Sign() <= 0 {
				okAll = false
				break
			}
			d := 0
			if bo.Op == token.ADD {
				d = 1
			} else if bo.Op == token.SUB {
				d = -1
			}
			if d == 0 || (dir != 0 && dir != d) {
				okAll = false
				break
			}
			dir = d
		}
		if !okAll || dir == 0 {
			continue
		}
		in := phiIn[phi]
		if in.Bad {
			continue
		}
		cur := e.vals[phi]
		// In BV mode this is only sound without wrap; restrict to int mode.
		if m != ModeInt {
			continue
		}
		if dir > 0 {
			e.emitAssert(b.Index, implies(e.reach[b.Index], m.le(signed, in.L[0], cur.L[0])))
		} else {
			e.emitAssert(b.Index, implies(e.reach[b.Index], m.le(signed, cur.L[0], in.L[0])))
		}
		e.assumptions["auto-invariant (monotone counter, no wrap) for "+phi.Comment+" in "+e.fnName] = true
	}
}

func (e *Enc) backEdge(from, head *ssa.BasicBlock, st *State) {
	li := e.loops[head.Index]
	if li == nil {
		return
	}
	invs := e.loopInvariants(li)
	if len(invs) == 0 && len(li.cands) == 0 {
		return
	}
	lname := fmt.Sprintf("loop%d", li.cord())
	idx := -1
	for i, p := range head.Preds {
		if p == from {
			idx = i
		}
	}
	reach := and(e.reach[from.Index], e.edgeCond(from, head))
	sub := map[ssa.Value]Val{}
	for _, ins := range head.Instrs {
		phi, ok := ins.(*ssa.Phi)
		if !ok {
			break
		}
		sub[phi] = e.val(phi.Edges[idx])
	}
	e.inlineSubst = sub
	// note: e.val above must not itself be substituted; compute before installing (done: map filled progressively but
	// phi edges never refer to head phis through substitution because inlineHead is nil here)
	e.inlineHead, e.inlineState = head, st
	env := e.loopEnv(li, st)
	e.curBlock = from.Index
	pos := lastInstr(from).Pos()
	if !pos.IsValid() {
		pos = head.Instrs[0].Pos()
	}
	for _, c := range li.cands {
		nv := sub[c.phi]
		if nv.Bad || len(nv.L) != 1 {
			e.obligeCand("auto-inv-pres", fmt.Sprintf("%s.%s.%s.from%d", lname, sanitize(c.phi.Comment), c.kind, e.backOrdinal(li, from)), pos, reach, "false", c.key)
			continue
		}
		e.obligeCand("auto-inv-pres", fmt.Sprintf("%s.%s.%s.from%d", lname, sanitize(c.phi.Comment), c.kind, e.backOrdinal(li, from)), pos, reach, e.candTerm(c, nv), c.key)
	}
	for i, c := range invs {
		t := e.evalGoal(c.Expr, env)
		e.oblige("inv-pres", lname+"."+clauseLabel(c, i)+fmt.Sprintf(".from%d", e.backOrdinal(li, from)), pos, reach, t, "loop invariant preserved: "+c.Text)
	}
	if e.Ct == nil {
		e.inlineSubst, e.inlineHead, e.inlineState = nil, nil, nil
		return
	}
	if dc, ok := e.Ct.LoopDec[li.cord()]; ok && li.decTerm != "" {
		d := e.evalExpr(dc.Expr, env)
		if !d.Bad && len(d.L) == 1 {
			d1 := e.coerceInt(d, SI)
			cond := and(e.M.ile(e.M.ilit(0), li.decTerm), e.M.ilt(d1, li.decTerm))
			if li.decUnsigned {
				// an unsigned variant is bounded below by its type
				cond = e.M.lt(false, d1, li.decTerm)
			}
			e.oblige("variant", lname+fmt.Sprintf(".from%d", e.backOrdinal(li, from)), pos, reach, cond, "loop variant decreases and is bounded below: "+dc.Text)
		}
	}
	e.inlineSubst, e.inlineHead, e.inlineState = nil, nil, nil
}

func (e *Enc) backOrdinal(li *loopInfo, from *ssa.BasicBlock) int {
	var idx []int
	for _, b := range li.backs {
		idx = append(idx, b.Index)
	}
	sort.Ints(idx)
	for i, x := range idx {
		if x == from.Index {
			return i + 1
		}
	}
	return 0
}

// candidate is an auto-proposed invariant about one loop-head phi.
type candidate struct {
	phi   *ssa.Phi
	kind  string // nonneg | nonempty | lt | le
	key   string
	bound ssa.Value // for lt/le
}

func (e *Enc) candTerm(c candidate, v Val) string {
	m := e.M
	switch c.kind {
	case "nonneg":
		return m.ile(m.ilit(0), v.L[0])
	case "nonempty":
		e.needStr()
		return m.ilt(m.ilit(0), "(slen "+v.L[0]+")")
	case "lt", "le":
		b := e.val(c.bound)
		if b.Bad || len(b.L) != 1 {
			return "true"
		}
		if c.kind == "lt" {
			return m.ilt(v.L[0], b.L[0])
		}
		return m.ile(v.L[0], b.L[0])
	}
	return "true"
}

// candidateInvariants proposes, assumes and checks (initiation here, preservation at the back edges) simple
// invariants: integer phis stay non-negative, string phis stay non-empty.
func (e *Enc) candidateInvariants(li *loopInfo, phiIn map[ssa.Value]Val, st *State) {
	if e.M != ModeInt || (e.Ct != nil && e.Ct.NoAuto) {
		return
	}
	b := li.head
	lname := fmt.Sprintf("loop%d", li.cord())
	for _, ins := range b.Instrs {
		phi, ok := ins.(*ssa.Phi)
		if !ok {
			break
		}
		in := phiIn[phi]
		cur := e.vals[phi]
		if in.Bad || cur.Bad || len(cur.L) != 1 {
			continue
		}
		var kinds []string
		if !phiMattersForSafety(phi) {
			continue
		}
		if bt, ok := phi.Type().Underlying().(*types.Basic); ok {
			switch {
			case bt.Info()&types.IsInteger != 0:
				if _, signed := intBits(bt); signed {
					kinds = append(kinds, "nonneg")
				}
			case bt.Info()&types.IsString != 0:
				kinds = append(kinds, "nonempty")
			}
		}
		// rotated loops test the condition at the latch: `next < K` guarding the back edge suggests `phi < K`
		var bounds []candidate
		if isInteger(phi.Type()) {
			for i, p := range b.Preds {
				if !e.isBackEdge(p, b) {
					continue
				}
				iff, ok := lastInstr(p).(*ssa.If)
				if !ok {
					continue
				}
				bo, ok := iff.Cond.(*ssa.BinOp)
				if !ok || bo.X != phi.Edges[i] || p.Succs[0] != b {
					continue
				}
				if ins, isIns := bo.Y.(ssa.Instruction); isIns && ins.Block() != nil && li.blocks[ins.Block().Index] {
					continue // bound not loop-invariant
				}
				switch bo.Op {
				case token.LSS:
					bounds = append(bounds, candidate{phi: phi, kind: "lt", bound: bo.Y})
				case token.LEQ:
					bounds = append(bounds, candidate{phi: phi, kind: "le", bound: bo.Y})
				}
			}
		}
		for _, c := range bounds {
			c.key = fmt.Sprintf("%s:%s:%s:%s:%s", e.fnName, lname, phi.Comment+"."+phi.Name(), c.kind, c.bound.Name())
			if e.disabledCands[c.key] {
				continue
			}
			e.obligeCand("auto-inv-init", fmt.Sprintf("%s.%s.%s", lname, sanitize(phi.Comment), c.kind), b.Instrs[0].Pos(), e.reach[b.Index], e.candTerm(c, in), c.key)
			e.emitAssert(b.Index, implies(e.reach[b.Index], e.candTerm(c, cur)))
			li.cands = append(li.cands, c)
		}
		for _, k := range kinds {
			c := candidate{phi: phi, kind: k, key: fmt.Sprintf("%s:%s:%s:%s", e.fnName, lname, phi.Comment+"."+phi.Name(), k)}
			if e.disabledCands[c.key] {
				continue
			}
			pos := b.Instrs[0].Pos()
			e.obligeCand("auto-inv-init", fmt.Sprintf("%s.%s.%s", lname, sanitize(phi.Comment), k), pos, e.reach[b.Index], e.candTerm(c, in), c.key)
			e.emitAssert(b.Index, implies(e.reach[b.Index], e.candTerm(c, cur)))
			li.cands = append(li.cands, c)
		}
	}
}

func (e *Enc) obligeCand(kind, anchor string, pos token.Pos, reach, cond, key string) {
	if e.pass != 2 {
		return
	}
	n := len(e.obls)
	e.oblige(kind, anchor, pos, reach, cond, "auto-proposed loop invariant ("+key+")")
	if len(e.obls) > n {
		e.obls[len(e.obls)-1].Detail = key
	}
}

// phiMattersForSafety: the phi (possibly through arithmetic, conversions and other phis) is used as an index, a
// slice bound, a make size, an indexed/sliced operand, or an argument of a call (which may have a precondition).
// Candidates are only proposed for such phis: the others cannot help any obligation.
func phiMattersForSafety(phi *ssa.Phi) bool {
	seen := map[ssa.Value]bool{}
	var walk func(v ssa.Value, depth int) bool
	walk = func(v ssa.Value, depth int) bool {
		if seen[v] || depth > 4 {
			return false
		}
		seen[v] = true
		refs := v.Referrers()
		if refs == nil {
			return false
		}
		for _, r := range *refs {
			switch x := r.(type) {
			case *ssa.IndexAddr:
				return true
			case *ssa.Index:
				return true
			case *ssa.Slice:
				return true
			case *ssa.MakeSlice:
				return true
			case *ssa.Lookup:
				if x.X == v {
					if _, isStr := x.X.Type().Underlying().(*types.Basic); isStr {
						return true
					}
				}
			case ssa.CallInstruction:
				if _, isBuiltin := x.Common().Value.(*ssa.Builtin); !isBuiltin {
					return true
				}
			case *ssa.Phi:
				if walk(x, depth+1) {
					return true
				}
			case *ssa.BinOp:
				switch x.Op {
				case token.ADD, token.SUB, token.MUL, token.QUO, token.REM:
					if walk(x, depth+1) {
						return true
					}
				}
			case *ssa.Convert:
				if walk(x, depth+1) {
					return true
				}
			}
		}
		return false
	}
	return walk(phi, 0)
}

// cord: the ordinal under which the contract speaks about this loop (see remapLoops); normally the loop's own.
func (li *loopInfo) cord() int {
	if li.contractOrd != 0 {
		return li.contractOrd
	}
	return li.ordinal
}

// remapLoops makes `loop N` clauses robust against a loop being added or removed earlier in the function: loops are
// numbered in source order, so such an edit shifts the ordinals. When the clauses written for loop N name a local
// variable that does not exist at loop N (it is neither referenced inside that loop nor defined before it), they are
// bound to the nearest other loop at which all their local names do exist, if there is exactly one best candidate not
// claimed by another clause group. Obligation names keep the contract's ordinal. Nothing changes when the names resolve.
func (e *Enc) remapLoops() {
	if e.Ct == nil || (len(e.Ct.LoopInv) == 0 && len(e.Ct.LoopDec) == 0) {
		return
	}
	byOrd := map[int]*loopInfo{}
	for _, li := range e.loops {
		byOrd[li.ordinal] = li
	}
	ordSet := map[int]bool{}
	for n := range e.Ct.LoopInv {
		ordSet[n] = true
	}
	for n := range e.Ct.LoopDec {
		ordSet[n] = true
	}
	var ords []int
	for n := range ordSet {
		ords = append(ords, n)
	}
	sort.Ints(ords)
	localNames := func(n int) []string {
		set := map[string]bool{}
		var exprs []ast.Expr
		for _, c := range e.Ct.LoopInv[n] {
			exprs = append(exprs, c.Expr)
		}
		if dc, ok := e.Ct.LoopDec[n]; ok {
			exprs = append(exprs, dc.Expr)
		}
		for _, x := range exprs {
			ast.Inspect(x, func(nd ast.Node) bool {
				switch y := nd.(type) {
				case *ast.SelectorExpr:
					ast.Inspect(y.X, func(z ast.Node) bool {
						if id, ok := z.(*ast.Ident); ok {
							set[id.Name] = true
						}
						return true
					})
					return false
				case *ast.Ident:
					set[y.Name] = true
				}
				return true
			})
		}
		var out []string
		for name := range set {
			if _, isLocal := e.dbg[name]; !isLocal {
				continue
			}
			if _, isParam := e.params[name]; isParam {
				continue
			}
			out = append(out, name)
		}
		sort.Strings(out)
		return out
	}
	resolves := func(name string, li *loopInfo) bool {
		for _, ins := range li.head.Instrs {
			if phi, ok := ins.(*ssa.Phi); ok && phi.Comment == name {
				return true
			}
		}
		for _, r := range e.dbg[name] {
			if li.blocks[r.block] || e.Fn.Blocks[r.block].Dominates(li.head) {
				return true
			}
		}
		return false
	}
	allResolve := func(names []string, li *loopInfo) bool {
		for _, n := range names {
			if !resolves(n, li) {
				return false
			}
		}
		return true
	}
	claimed := map[int]bool{} // loop ordinals bound to a clause group
	var pending []int
	for _, n := range ords {
		if li := byOrd[n]; li != nil && allResolve(localNames(n), li) {
			claimed[n] = true
			continue
		}
		pending = append(pending, n)
	}
	for _, n := range pending {
		names := localNames(n)
		best, bestDist, ties := 0, 1<<30, 0
		for m, li := range byOrd {
			if claimed[m] || !allResolve(names, li) {
				continue
			}
			d := m - n
			if d < 0 {
				d = -d
			}
			if d < bestDist {
				best, bestDist, ties = m, d, 1
			} else if d == bestDist {
				ties++
			}
		}
		if best != 0 && ties == 1 {
			claimed[best] = true
			byOrd[best].contractOrd = n
			if e.pass == 2 {
				fmt.Fprintf(os.Stderr, "note: %s: clauses of `loop %d` bound to loop %d (the names %v do not exist at loop %d: a loop was added or removed before it)\n", e.fnName, n, best, names, n)
			}
		}
	}
	// a loop whose own ordinal is claimed by a shifted group must not pick up that group's clauses as well
	for m, li := range byOrd {
		if li.contractOrd == 0 && ordSet[m] && !claimed[m] {
			li.contractOrd = -1
		}
	}
}

// ghostCellsOf records, as cells written in the loop, the ghost variables that the contract of the called function
// lists under `modifies`.
func (e *Enc) ghostCellsOf(c ssa.CallInstruction, lm *loopMods) {
	callee, key := e.calleeOf(c)
	ct := e.contractFor(key)
	pkg := e.Pkg
	if callee != nil && callee.Pkg != nil {
		pkg = callee.Pkg
	}
	names := map[string]bool{}
	if ct != nil {
		for _, mc := range ct.Modifies {
			if id, ok := mc.Expr.(*ast.Ident); ok {
				names[id.Name] = true
			}
		}
	}
	var sorted []string
	for n := range names {
		sorted = append(sorted, n)
	}
	sort.Strings(sorted)
	for _, name := range sorted {
		id := &ast.Ident{Name: name}
		gt, isGhost := e.CS.Ghosts[id.Name]
		if !isGhost {
			continue
		}
		t := e.resolveType(pkg, gt)
		if t == nil {
			t = e.resolveType(e.Pkg, gt)
		}
		if t == nil {
			// unknown type: every ghost cell sort at that object becomes arbitrary
			for s := range e.knownSorts {
				lm.cells[s] = append(lm.cells[s], [3]string{e.ghostObj(id.Name), e.M.ilit(0), e.M.ilit(64)})
			}
			lm.ghostCells = true
			continue
		}
		sorts := map[Sort]bool{}
		e.allSorts(t, sorts)
		for s := range sorts {
			lm.cells[s] = append(lm.cells[s], [3]string{e.ghostObj(id.Name), e.M.ilit(0), e.M.ilit(slots(t))})
		}
		lm.ghostCells = true
	}
}

// ghostFrameObligations: every ghost variable that a call site of this function updates (the callee's contract lists it
// under `modifies`) is listed in this function's own `modifies`. Otherwise a caller of this function would keep the old
// value of the ghost variable while assuming what this function's ensures clauses say about the new one.
func (e *Enc) ghostFrameObligations() {
	declared := map[string]bool{}
	for _, mc := range e.Ct.Modifies {
		if id, ok := mc.Expr.(*ast.Ident); ok {
			declared[id.Name] = true
		}
	}
	var names []string
	for g := range e.directGhostMods(e.Fn) {
		names = append(names, g)
	}
	sort.Strings(names)
	for _, g := range names {
		o := &Obligation{Name: e.fnName + "#ghost-frame@" + g, Func: e.fnName, Kind: "ghost-frame", Backend: "structural", OK: declared[g],
			Descr: "the ghost variable " + g + ", updated at a call site of this function, is listed in its modifies clause"}
		if !o.OK {
			o.Detail = "a callee's contract updates the ghost variable " + g + " but the contract of " + e.fnName + " does not list it under modifies: callers would keep its old value"
		}
		e.obls = append(e.obls, o)
	}
}
