package main

import (
	"encoding/json"
	"flag"
	"fmt"
	"os"
	"os/exec"
	"path/filepath"
	"sort"
	"strings"
	"sync"
)

// cmdObls: govc obls <prop> [-t secs] : prints JSON [{name, discharged, verdict}] for GOVC_REPO (used by the selftest).
func cmdObls(args []string) {
	fs := flag.NewFlagSet("obls", flag.ExitOnError)
	timeout := fs.Int("t", 10, "timeout")
	var pos []string
	for len(args) > 0 && !strings.HasPrefix(args[0], "-") {
		pos = append(pos, args[0])
		args = args[1:]
	}
	fs.Parse(args)
	if len(pos) != 1 {
		os.Exit(2)
	}
	res := runProperty(pos[0], "quick", *timeout)
	type row struct {
		Name       string  `json:"name"`
		Discharged bool    `json:"discharged"`
		Verdict    string  `json:"verdict"`
		Solver     string  `json:"solver"`
		TimeS      float64 `json:"time_s"`
	}
	var rows []row
	for _, e := range res.Errors {
		rows = append(rows, row{"machinery-error: " + e, false, "error", "", 0})
	}
	for _, o := range res.Obls {
		rows = append(rows, row{o.Name, o.Discharged(), o.Result.Verdict, o.Result.Solver, o.Result.TimeS})
	}
	data, _ := json.Marshal(rows)
	fmt.Println(string(data))
}

func selftestScratchBase() string {
	for _, d := range []string{os.Getenv("GOVC_SELFTEST_DIR"), os.Getenv("XDG_RUNTIME_DIR"), "/var/tmp"} {
		if d != "" {
			if st, err := os.Stat(d); err == nil && st.IsDir() {
				return d
			}
		}
	}
	return os.TempDir()
}

// runSelftest applies every must-fail mutant of the property to a scratch copy of the repo (outside /repo and
// /verif, removed immediately afterwards) and requires one of the named obligations to fail.
func runSelftest(prop string, timeoutS int) (map[string]interface{}, []string) {
	dir := filepath.Join(verifDir(), "selftest", "mutants", prop)
	patches, _ := filepath.Glob(filepath.Join(dir, "*.patch"))
	sort.Strings(patches)
	out := map[string]interface{}{"mutants": len(patches)}
	if len(patches) == 0 {
		return out, nil
	}
	self, _ := os.Executable()
	type result struct {
		name   string
		caught bool
		by     []string
		err    string
	}
	results := make([]result, len(patches))
	var wg sync.WaitGroup
	sem := make(chan struct{}, 3)
	for i, p := range patches {
		wg.Add(1)
		go func(i int, p string) {
			defer wg.Done()
			sem <- struct{}{}
			defer func() { <-sem }()
			r := result{name: filepath.Base(p)}
			defer func() { results[i] = r }()
			data, _ := os.ReadFile(p)
			var expects []string
			for _, ln := range strings.Split(string(data), "\n") {
				if strings.HasPrefix(ln, "# expect:") {
					expects = append(expects, strings.Fields(strings.TrimPrefix(ln, "# expect:"))...)
				}
			}
			tmp, err := os.MkdirTemp(selftestScratchBase(), "govc-mut-")
			if err != nil {
				r.err = err.Error()
				return
			}
			defer os.RemoveAll(tmp)
			if outb, err := exec.Command("cp", "-r", repoDir()+"/.", tmp).CombinedOutput(); err != nil {
				r.err = "copy: " + string(outb)
				return
			}
			os.RemoveAll(filepath.Join(tmp, ".git"))
			cmd := exec.Command("patch", "-p1", "-s", "-i", p)
			cmd.Dir = tmp
			if outb, err := cmd.CombinedOutput(); err != nil {
				r.err = "patch does not apply: " + strings.TrimSpace(string(outb))
				return
			}
			c := exec.Command(self, "obls", prop, "-t", fmt.Sprint(min(timeoutS, 15)))
			c.Env = append(os.Environ(), "GOVC_REPO="+tmp, "GOVC_SCRATCH="+filepath.Join(tmp, ".govc-scratch"))
			outb, err := c.Output()
			if err != nil {
				r.err = "obls: " + err.Error()
				return
			}
			var rows []struct {
				Name       string `json:"name"`
				Discharged bool   `json:"discharged"`
			}
			if err := json.Unmarshal(outb, &rows); err != nil {
				r.err = "obls output: " + err.Error()
				return
			}
			for _, row := range rows {
				if row.Discharged {
					continue
				}
				if len(expects) == 0 {
					r.caught = true
					r.by = append(r.by, row.Name)
					continue
				}
				for _, ex := range expects {
					if strings.HasPrefix(row.Name, ex) || strings.Contains(row.Name, ex) {
						r.caught = true
						r.by = append(r.by, row.Name)
					}
				}
			}
		}(i, p)
	}
	wg.Wait()
	var missed []string
	var rows []map[string]interface{}
	caught := 0
	for _, r := range results {
		rows = append(rows, map[string]interface{}{"mutant": r.name, "caught": r.caught, "failing_obligations": r.by, "error": r.err})
		if r.caught {
			caught++
		} else {
			missed = append(missed, r.name+" "+r.err)
		}
	}
	out["caught"] = caught
	out["results"] = rows
	return out, missed
}

// ReplayResult describes an attempt to reproduce a solver model on the real code.
type ReplayResult struct {
	Confirmed bool   `json:"confirmed"`
	Ran       bool   `json:"ran"`
	Output    string `json:"output"`
	Test      string `json:"test,omitempty"`
	PkgDir    string `json:"pkg_dir,omitempty"`
	Expect    string `json:"expect,omitempty"`
	NoSafety  bool   `json:"no_safety,omitempty"`
}
