package main

import (
	"bytes"
	"context"
	"fmt"
	"os"
	"os/exec"
	"path/filepath"
	"strings"
	"sync"
	"time"
)

// Solver back ends raced per obligation.
type solverSpec struct {
	name string
	argv func(file string, timeoutS int) []string
}

var solvers = []solverSpec{
	{"z3-new-5.1.0", func(f string, t int) []string { return []string{"z3-new", fmt.Sprintf("-T:%d", t), f} }},
	{"z3-4.8.12", func(f string, t int) []string { return []string{"/usr/bin/z3", fmt.Sprintf("-T:%d", t), f} }},
	{"cvc5-1.0.3", func(f string, t int) []string {
		return []string{"cvc5", "--incremental", fmt.Sprintf("--tlimit=%d", t*1000), f}
	}},
}

type SolveResult struct {
	Verdict string // unsat | sat | unknown | timeout | error
	Solver  string
	TimeS   float64
	Output  string            // raw output of the deciding solver (model when sat)
	All     map[string]string // verdict per solver (thorough)
}

// firstLine verdict: z3 4.8.12 exits 1 on (get-model) after unsat, so only the first line is trusted.
func parseVerdict(out string) string {
	for _, ln := range strings.Split(out, "\n") {
		ln = strings.TrimSpace(ln)
		if ln == "" {
			continue
		}
		switch ln {
		case "unsat", "sat", "unknown", "timeout":
			return ln
		}
		if strings.HasPrefix(ln, "(error") {
			return "error"
		}
		return "error"
	}
	return "timeout"
}

// solveRace runs all solvers on the file; the first definite (sat/unsat) answer wins.
// If waitAll is set, all solvers are run to completion and their verdicts recorded.
func solveRace(file string, timeoutS int, waitAll bool) SolveResult {
	return solveRace2(file, "", timeoutS, waitAll)
}

// solveRace2 races the solvers on the query and, when given, on its alternative form (same satisfiability).
func solveRace2(file, altFile string, timeoutS int, waitAll bool) SolveResult {
	if !waitAll {
		// stage 1: the usually fastest solver alone with a short budget (saves two process launches per goal)
		t0 := time.Now()
		argv := solvers[0].argv(file, min(timeoutS, 3))
		var buf bytes.Buffer
		cmd := exec.Command(argv[0], argv[1:]...)
		cmd.Stdout = &buf
		cmd.Stderr = &buf
		cmd.Run()
		if v := parseVerdict(buf.String()); v == "sat" || v == "unsat" {
			return SolveResult{Verdict: v, Solver: solvers[0].name, TimeS: time.Since(t0).Seconds(), Output: buf.String(), All: map[string]string{solvers[0].name: v}}
		}
	}
	type one struct {
		name    string
		verdict string
		out     string
		dt      float64
	}
	ctx, cancel := context.WithCancel(context.Background())
	defer cancel()
	type job struct {
		s    solverSpec
		file string
		tag  string
	}
	var jobs []job
	for _, s := range solvers {
		jobs = append(jobs, job{s, file, ""})
	}
	if altFile != "" {
		for _, s := range solvers {
			jobs = append(jobs, job{s, altFile, "/inst"})
		}
	}
	ch := make(chan one, len(jobs))
	for _, j := range jobs {
		go func(j job) {
			s := j.s
			s.name += j.tag
			argv := s.argv(j.file, timeoutS)
			t0 := time.Now()
			cmd := exec.CommandContext(ctx, argv[0], argv[1:]...)
			var buf bytes.Buffer
			cmd.Stdout = &buf
			cmd.Stderr = &buf
			cmd.Run()
			v := parseVerdict(buf.String())
			if ctx.Err() != nil && v != "sat" && v != "unsat" {
				v = "cancelled"
			}
			ch <- one{s.name, v, buf.String(), time.Since(t0).Seconds()}
		}(j)
	}
	res := SolveResult{Verdict: "unknown", All: map[string]string{}}
	decided := false
	var firstOther *one
	for range jobs {
		o := <-ch
		res.All[o.name] = o.verdict
		if (o.verdict == "sat" || o.verdict == "unsat") && !decided {
			decided = true
			res.Verdict, res.Solver, res.TimeS, res.Output = o.verdict, o.name, o.dt, o.out
			if !waitAll {
				cancel()
			}
		} else if !decided && firstOther == nil && o.verdict != "cancelled" {
			oo := o
			firstOther = &oo
		}
	}
	if !decided && firstOther != nil {
		res.Verdict, res.Solver, res.TimeS, res.Output = firstOther.verdict, firstOther.name, firstOther.dt, firstOther.out
		if res.Verdict == "error" {
			// an error from one solver (e.g. unsupported construct) is "unknown" unless all error
			allErr := true
			for _, v := range res.All {
				if v != "error" {
					allErr = false
				}
			}
			if !allErr {
				res.Verdict = "unknown"
			}
		}
	}
	return res
}

// Obligation is one proof goal: context ∧ reach ∧ ¬cond must be unsat.
type Obligation struct {
	Name   string // stable name pkg.func#kind@anchor
	Func   string
	Kind   string
	Pos    string // source position (informational only)
	Descr  string
	SMT    string // full SMT-LIB text of the query
	SMTAlt string // equisatisfiable second form (skolemised goal + explicit instances), raced with the first
	Result SolveResult
	// Expect: "" normal (unsat=discharged). "sat" for cover/vacuity goals (sat=ok).
	Expect string
	// Bounded marks obligations generated under a stated bound (never counted as proved).
	Bounded bool
	// Backend for non-SMT obligations ("structural", "provenance"); then OK is set directly.
	Backend string
	OK      bool
	Detail  string
	Model   map[string]string
	// RC: what a replay of a solver model needs (function, parameter terms, entry heap); Clause: the contract clause
	RC     *ReplayCtx `json:"-"`
	Clause *Clause    `json:"-"`
}

func (o *Obligation) Discharged() bool {
	if o.Backend != "" && o.Backend != "smt" {
		return o.OK
	}
	if o.Expect == "sat" {
		// vacuity/cover guard: passes unless the solver proves the context inconsistent
		return o.Result.Verdict != "unsat" && o.Result.Verdict != "error"
	}
	return o.Result.Verdict == "unsat"
}

func sanitize(s string) string {
	var b strings.Builder
	for _, r := range s {
		switch {
		case r >= 'a' && r <= 'z', r >= 'A' && r <= 'Z', r >= '0' && r <= '9', r == '_', r == '-', r == '.':
			b.WriteRune(r)
		default:
			b.WriteByte('_')
		}
	}
	return b.String()
}

// dischargeAll runs the SMT obligations in parallel.
func dischargeAll(obls []*Obligation, workDir string, timeoutS int, waitAll bool, par int) {
	dischargeAllOpt(obls, workDir, timeoutS, waitAll, par, true)
}

func dischargeAllOpt(obls []*Obligation, workDir string, timeoutS int, waitAll bool, par int, retry bool) {
	os.MkdirAll(workDir, 0o755)
	var wg sync.WaitGroup
	sem := make(chan struct{}, par)
	for i, o := range obls {
		if o.Backend != "" && o.Backend != "smt" {
			continue
		}
		wg.Add(1)
		go func(i int, o *Obligation) {
			defer wg.Done()
			sem <- struct{}{}
			defer func() { <-sem }()
			f := filepath.Join(workDir, fmt.Sprintf("%04d_%s.smt2", i, sanitize(o.Name)))
			if len(f) > 200 {
				f = f[:190] + ".smt2"
			}
			os.WriteFile(f, []byte(o.SMT), 0o644)
			alt := ""
			if o.SMTAlt != "" {
				alt = strings.TrimSuffix(f, ".smt2") + ".inst.smt2"
				os.WriteFile(alt, []byte(o.SMTAlt), 0o644)
			}
			budget := timeoutS
			if o.Expect == "sat" && budget > 5 {
				budget = 5 // reachability guards only fail on a quick "unsat": no point in waiting for an undecided one
			}
			o.Result = solveRace2(f, alt, budget, waitAll)
			if o.Result.Verdict == "sat" {
				o.Model = parseModel(o.Result.Output)
			}
		}(i, o)
	}
	wg.Wait()
	// Obligations that ended in a timeout or "unknown" (never "sat") get one more attempt, a few at a time and with
	// a longer budget: under machine load the parallel phase can starve a solver of an otherwise easy goal.
	var again []int
	for i, o := range obls {
		if o.Backend != "" && o.Backend != "smt" {
			continue
		}
		if o.Expect == "" && o.Result.Verdict != "unsat" && o.Result.Verdict != "sat" {
			again = append(again, i)
		}
	}
	if retry && len(again) > 0 && len(again) <= 24 {
		sem2 := make(chan struct{}, 4)
		var wg2 sync.WaitGroup
		for _, i := range again {
			wg2.Add(1)
			go func(i int) {
				defer wg2.Done()
				sem2 <- struct{}{}
				defer func() { <-sem2 }()
				o := obls[i]
				f := filepath.Join(workDir, fmt.Sprintf("%04d_%s.smt2", i, sanitize(o.Name)))
				if len(f) > 200 {
					f = f[:190] + ".smt2"
				}
				alt := ""
				if o.SMTAlt != "" {
					alt = strings.TrimSuffix(f, ".smt2") + ".inst.smt2"
				}
				r := solveRace2(f, alt, timeoutS*3, true)
				if r.Verdict == "unsat" || r.Verdict == "sat" {
					o.Result = r
					if r.Verdict == "sat" {
						o.Model = parseModel(r.Output)
					}
				}
			}(i)
		}
		wg2.Wait()
	}
}

// parseModel extracts (define-fun name () Sort value) entries for 0-ary symbols.
func parseModel(out string) map[string]string {
	m := map[string]string{}
	toks := tokenizeSexp(out)
	// find sequences: ( define-fun NAME ( ) SORT VALUE )
	for i := 0; i+4 < len(toks); i++ {
		if toks[i] == "(" && toks[i+1] == "define-fun" && toks[i+3] == "(" && toks[i+4] == ")" {
			name := toks[i+2]
			j := i + 5
			// skip sort
			j = skipSexp(toks, j)
			k := skipSexp(toks, j)
			if k <= len(toks) {
				m[name] = strings.Join(toks[j:k], " ")
			}
			i = k - 1
		}
	}
	return m
}

func tokenizeSexp(s string) []string {
	var toks []string
	i := 0
	for i < len(s) {
		c := s[i]
		switch {
		case c == '(' || c == ')':
			toks = append(toks, string(c))
			i++
		case c == ' ' || c == '\n' || c == '\t' || c == '\r':
			i++
		case c == ';':
			for i < len(s) && s[i] != '\n' {
				i++
			}
		case c == '|':
			j := i + 1
			for j < len(s) && s[j] != '|' {
				j++
			}
			toks = append(toks, s[i:min(j+1, len(s))])
			i = j + 1
		case c == '"':
			j := i + 1
			for j < len(s) && s[j] != '"' {
				j++
			}
			toks = append(toks, s[i:min(j+1, len(s))])
			i = j + 1
		default:
			j := i
			for j < len(s) && !strings.ContainsRune("() \n\t\r", rune(s[j])) {
				j++
			}
			toks = append(toks, s[i:j])
			i = j
		}
	}
	return toks
}

func skipSexp(toks []string, i int) int {
	if i >= len(toks) {
		return i
	}
	if toks[i] != "(" {
		return i + 1
	}
	depth := 0
	for ; i < len(toks); i++ {
		if toks[i] == "(" {
			depth++
		} else if toks[i] == ")" {
			depth--
			if depth == 0 {
				return i + 1
			}
		}
	}
	return i
}

// modelInt decodes an SMT integer / bit-vector literal to a decimal string (signed if bits>0 and signed).
func modelInt(v string) (string, bool) {
	v = strings.TrimSpace(v)
	if strings.HasPrefix(v, "#x") || strings.HasPrefix(v, "#b") {
		return v, true
	}
	if strings.HasPrefix(v, "( - ") && strings.HasSuffix(v, " )") {
		return "-" + strings.TrimSpace(v[4:len(v)-2]), true
	}
	for _, r := range v {
		if r < '0' || r > '9' {
			return v, false
		}
	}
	return v, v != ""
}
