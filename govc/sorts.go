package main

import (
	"fmt"
	"go/types"
	"math/big"
	"strings"
)

// Val is a symbolic Go value: its leaves in SMT, flattened.
//
//	integer, bool, string, float: 1 leaf
//	pointer: (obj, off)            map/chan/func/unsafe.Pointer: (obj)
//	slice: (obj, off, len, cap)    interface: (typ, obj, off)
//	struct: concatenation of fields; tuple: concatenation of components
//	array: not representable as a register value (memory only) unless tiny
type Val struct {
	T     types.Type
	L     []string
	Const *big.Int // untyped integer constant (T may be nil)
	Bad   bool     // value could not be modelled (havoc)
	// QV/QShift: the value is <quantifier bound variable QV> + QShift (contract expressions only)
	QV     string
	QShift string
}

type Mode int

const (
	ModeInt Mode = iota
	ModeBV
)

// sortKey identifies a heap component / leaf sort.
type Sort string

const (
	SI    Sort = "I" // machine word / int / obj ids / lengths
	SBool Sort = "B"
	SStr  Sort = "S"
	SReal Sort = "R"
	SIter Sort = "T" // positions of range-over-string iterators (kept apart from program memory)
)

func (m Mode) smtSort(s Sort) string {
	switch s {
	case SI, SIter:
		if m == ModeBV {
			return "(_ BitVec 64)"
		}
		return "Int"
	case SBool:
		return "Bool"
	case SStr:
		return "Str"
	case SReal:
		return "Real"
	}
	if strings.HasPrefix(string(s), "BV") {
		return "(_ BitVec " + string(s)[2:] + ")"
	}
	panic("bad sort " + string(s))
}

func intBits(b *types.Basic) (bits int, signed bool) {
	switch b.Kind() {
	case types.Int8:
		return 8, true
	case types.Int16:
		return 16, true
	case types.Int32, types.UntypedRune:
		return 32, true
	case types.Int, types.Int64, types.UntypedInt:
		return 64, true
	case types.Uint8:
		return 8, false
	case types.Uint16:
		return 16, false
	case types.Uint32:
		return 32, false
	case types.Uint, types.Uint64, types.Uintptr:
		return 64, false
	}
	return 0, false
}

func isInteger(t types.Type) bool {
	b, ok := t.Underlying().(*types.Basic)
	return ok && b.Info()&types.IsInteger != 0
}

// intSort is the leaf sort for an integer type in the given mode.
func (m Mode) intSort(t types.Type) Sort {
	if m == ModeInt {
		return SI
	}
	b := t.Underlying().(*types.Basic)
	bits, _ := intBits(b)
	if bits == 64 || bits == 0 {
		return SI
	}
	return Sort(fmt.Sprintf("BV%d", bits))
}

// leafSorts returns the leaf sorts of a value of type t, or nil,false if not representable in a register.
func (m Mode) leafSorts(t types.Type) ([]Sort, bool) {
	switch u := t.Underlying().(type) {
	case *types.Basic:
		switch {
		case u.Info()&types.IsInteger != 0:
			return []Sort{m.intSort(t)}, true
		case u.Info()&types.IsBoolean != 0:
			return []Sort{SBool}, true
		case u.Info()&types.IsString != 0:
			return []Sort{SStr}, true
		case u.Info()&types.IsFloat != 0, u.Info()&types.IsComplex != 0:
			return []Sort{SReal}, true
		case u.Kind() == types.UnsafePointer:
			return []Sort{SI}, true
		case u.Kind() == types.UntypedNil:
			return []Sort{SI}, true
		case u.Kind() == types.Invalid:
			// the unused key/value component of a range-over-string `next` tuple
			return []Sort{SI}, true
		}
		return nil, false
	case *types.Pointer:
		return []Sort{SI, SI}, true
	case *types.Slice:
		return []Sort{SI, SI, SI, SI}, true
	case *types.Interface:
		return []Sort{SI, SI, SI}, true
	case *types.Map, *types.Chan, *types.Signature:
		return []Sort{SI}, true
	case *types.Struct:
		var out []Sort
		for i := 0; i < u.NumFields(); i++ {
			ls, ok := m.leafSorts(u.Field(i).Type())
			if !ok {
				return nil, false
			}
			out = append(out, ls...)
			if len(out) > 256 {
				return nil, false
			}
		}
		return out, true
	case *types.Tuple:
		var out []Sort
		for i := 0; i < u.Len(); i++ {
			ls, ok := m.leafSorts(u.At(i).Type())
			if !ok {
				return nil, false
			}
			out = append(out, ls...)
		}
		return out, true
	case *types.Array:
		n := u.Len()
		es, ok := m.leafSorts(u.Elem())
		if !ok || n*int64(len(es)) > 64 {
			return nil, false
		}
		var out []Sort
		for i := int64(0); i < n; i++ {
			out = append(out, es...)
		}
		return out, true
	case *types.TypeParam:
		return nil, false
	}
	return nil, false
}

// slots is the number of memory slots a value of type t occupies (one per leaf; arrays N*elem).
func slots(t types.Type) int64 {
	switch u := t.Underlying().(type) {
	case *types.Basic:
		return 1
	case *types.Pointer:
		return 2
	case *types.Slice:
		return 4
	case *types.Interface:
		return 3
	case *types.Map, *types.Chan, *types.Signature:
		return 1
	case *types.Struct:
		var n int64
		for i := 0; i < u.NumFields(); i++ {
			n += slots(u.Field(i).Type())
		}
		if n == 0 {
			n = 1
		}
		return n
	case *types.Array:
		n := u.Len() * slots(u.Elem())
		if n == 0 {
			n = 1
		}
		return n
	case *types.Tuple:
		var n int64
		for i := 0; i < u.Len(); i++ {
			n += slots(u.At(i).Type())
		}
		return n
	}
	return 1
}

func fieldOffset(st *types.Struct, idx int) int64 {
	var n int64
	for i := 0; i < idx; i++ {
		n += slots(st.Field(i).Type())
	}
	return n
}

// fieldLeafRange gives the range of leaves [lo,hi) for field idx in a register struct value.
func (m Mode) fieldLeafRange(st *types.Struct, idx int) (int, int, bool) {
	lo := 0
	for i := 0; i < idx; i++ {
		ls, ok := m.leafSorts(st.Field(i).Type())
		if !ok {
			return 0, 0, false
		}
		lo += len(ls)
	}
	ls, ok := m.leafSorts(st.Field(idx).Type())
	if !ok {
		return 0, 0, false
	}
	return lo, lo + len(ls), true
}

func derefType(t types.Type) types.Type {
	if p, ok := t.Underlying().(*types.Pointer); ok {
		return p.Elem()
	}
	return nil
}

// ---- term helpers ----

func (m Mode) lit(s Sort, n *big.Int) string {
	if m == ModeInt || (s != SI && !strings.HasPrefix(string(s), "BV")) {
		if n.Sign() < 0 {
			return "(- " + new(big.Int).Neg(n).String() + ")"
		}
		return n.String()
	}
	bits := 64
	if s != SI {
		fmt.Sscanf(string(s)[2:], "%d", &bits)
	}
	mod := new(big.Int).Lsh(big.NewInt(1), uint(bits))
	v := new(big.Int).Mod(n, mod)
	return fmt.Sprintf("(_ bv%s %d)", v.String(), bits)
}

func (m Mode) ilit(n int64) string { return m.lit(SI, big.NewInt(n)) }

func sortBits(s Sort) int {
	if s == SI {
		return 64
	}
	bits := 0
	fmt.Sscanf(string(s)[2:], "%d", &bits)
	return bits
}

func and(ts ...string) string {
	var xs []string
	for _, t := range ts {
		if t == "true" || t == "" {
			continue
		}
		if t == "false" {
			return "false"
		}
		xs = append(xs, t)
	}
	switch len(xs) {
	case 0:
		return "true"
	case 1:
		return xs[0]
	}
	return "(and " + strings.Join(xs, " ") + ")"
}

func or(ts ...string) string {
	var xs []string
	for _, t := range ts {
		if t == "false" || t == "" {
			continue
		}
		if t == "true" {
			return "true"
		}
		xs = append(xs, t)
	}
	switch len(xs) {
	case 0:
		return "false"
	case 1:
		return xs[0]
	}
	return "(or " + strings.Join(xs, " ") + ")"
}

func not(t string) string {
	switch t {
	case "true":
		return "false"
	case "false":
		return "true"
	}
	if strings.HasPrefix(t, "(not ") && strings.HasSuffix(t, ")") {
		inner := t[5 : len(t)-1]
		if balanced(inner) {
			return inner
		}
	}
	return "(not " + t + ")"
}

func balanced(s string) bool {
	d := 0
	for _, r := range s {
		if r == '(' {
			d++
		} else if r == ')' {
			d--
			if d < 0 {
				return false
			}
		}
	}
	return d == 0
}

func implies(a, b string) string {
	if a == "true" {
		return b
	}
	if b == "true" || a == "false" {
		return "true"
	}
	return "(=> " + a + " " + b + ")"
}

func ite(c, a, b string) string {
	if c == "true" {
		return a
	}
	if c == "false" {
		return b
	}
	if a == b {
		return a
	}
	return "(ite " + c + " " + a + " " + b + ")"
}

func eq(a, b string) string {
	if a == b {
		return "true"
	}
	return "(= " + a + " " + b + ")"
}

// arithmetic in the mode; s is the sort of the operands, signed from the Go type.
func (m Mode) add(s Sort, a, b string) string {
	if m == ModeBV {
		return "(bvadd " + a + " " + b + ")"
	}
	if b == "0" {
		return a
	}
	if a == "0" {
		return b
	}
	return "(+ " + a + " " + b + ")"
}
func (m Mode) sub(s Sort, a, b string) string {
	if m == ModeBV {
		return "(bvsub " + a + " " + b + ")"
	}
	if b == "0" {
		return a
	}
	return "(- " + a + " " + b + ")"
}
func (m Mode) mul(s Sort, a, b string) string {
	if m == ModeBV {
		return "(bvmul " + a + " " + b + ")"
	}
	if b == "1" {
		return a
	}
	if a == "1" {
		return b
	}
	return "(* " + a + " " + b + ")"
}
func (m Mode) lt(signed bool, a, b string) string {
	if m == ModeBV {
		if signed {
			return "(bvslt " + a + " " + b + ")"
		}
		return "(bvult " + a + " " + b + ")"
	}
	return "(< " + a + " " + b + ")"
}
func (m Mode) le(signed bool, a, b string) string {
	if m == ModeBV {
		if signed {
			return "(bvsle " + a + " " + b + ")"
		}
		return "(bvule " + a + " " + b + ")"
	}
	return "(<= " + a + " " + b + ")"
}

// index arithmetic (sort I, signed)
func (m Mode) iadd(a, b string) string { return m.add(SI, a, b) }
func (m Mode) isub(a, b string) string { return m.sub(SI, a, b) }
func (m Mode) imul(a, b string) string { return m.mul(SI, a, b) }
func (m Mode) ilt(a, b string) string  { return m.lt(true, a, b) }
func (m Mode) ile(a, b string) string  { return m.le(true, a, b) }
