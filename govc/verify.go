package main

import (
	"flag"
	"fmt"
	"os"
	"path/filepath"
	"sort"
	"strings"
	"time"

	"golang.org/x/tools/go/ssa"
)

var repoPkgs = map[string]string{
	"mvdan.cc/sh/v3/internal":  "internal",
	"mvdan.cc/sh/v3/expand":    "expand",
	"mvdan.cc/sh/v3/syntax":    "syntax",
	"mvdan.cc/sh/v3/pattern":   "pattern",
	"mvdan.cc/sh/v3/interp":    "interp",
	"mvdan.cc/sh/v3/cmd/shfmt": "cmd/shfmt",
}

func verifDir() string {
	if d := os.Getenv("GOVC_VERIF"); d != "" {
		return d
	}
	return "/verif"
}

func scratchDir(name string) string {
	base := os.Getenv("GOVC_SCRATCH")
	if base == "" {
		base = filepath.Join(verifDir(), ".scratch")
	}
	d := filepath.Join(base, name)
	if strings.HasPrefix(name, "check-") || strings.HasPrefix(name, "houdini-") {
		// two runs of the same check at the same time must not share query files
		d = filepath.Join(base, fmt.Sprintf("%s.%d", name, os.Getpid()))
		staleScratch(base, name)
	}
	os.RemoveAll(d)
	os.MkdirAll(d, 0o755)
	return d
}

// staleScratch removes per-process scratch directories of this name that are older than an hour.
func staleScratch(base, name string) {
	ents, err := os.ReadDir(base)
	if err != nil {
		return
	}
	for _, en := range ents {
		if strings.HasPrefix(en.Name(), name+".") {
			if info, err := en.Info(); err == nil && time.Since(info.ModTime()) > time.Hour {
				os.RemoveAll(filepath.Join(base, en.Name()))
			}
		}
	}
}

// cmdVerify: govc verify [-t secs] [-keep] <pkgpath> <func>...  (development aid)
func cmdVerify(args []string) {
	fs := flag.NewFlagSet("verify", flag.ExitOnError)
	timeout := fs.Int("t", 10, "per-obligation timeout (s)")
	verbose := fs.Bool("v", false, "verbose")
	all := fs.Bool("all", false, "wait for all solvers")
	fs.BoolVar(&debugPanics, "panic", false, "propagate encoder panics")
	fs.Parse(args)
	args = fs.Args()
	if len(args) < 2 {
		fmt.Fprintln(os.Stderr, "usage: govc verify <pkgpath> <func>...")
		os.Exit(2)
	}
	pkg := args[0]
	if !strings.Contains(pkg, "/") {
		pkg = "mvdan.cc/sh/v3/" + pkg
	}
	P, err := load(pkg)
	if err != nil {
		fmt.Fprintln(os.Stderr, err)
		os.Exit(2)
	}
	CS, err := loadContracts(P.Dir, verifDir(), repoPkgs)
	if err != nil {
		fmt.Fprintln(os.Stderr, err)
		os.Exit(2)
	}
	var obls []*Obligation
	for _, fname := range args[1:] {
		fn := P.lookupFunc(pkg, fname)
		if fn == nil {
			fmt.Fprintln(os.Stderr, "function not found:", fname)
			os.Exit(2)
		}
		ct := CS.Funcs[pkg+"."+fname]
		r := encodeFunc(P, CS, fn, ct)
		for _, e := range r.Errs {
			fmt.Println("ERROR", r.Name, e)
		}
		var abs []string
		for k, n := range r.Abstracted {
			abs = append(abs, fmt.Sprintf("%s x%d", k, n))
		}
		sort.Strings(abs)
		fmt.Printf("== %s: %d obligations, mode %s, contract=%v, abstracted=%v\n", r.Name, len(r.Obls), r.Mode, ct != nil, abs)
		obls = append(obls, r.Obls...)
	}
	dir := scratchDir("verify")
	dischargeAll(obls, dir, *timeout, *all, 16)
	bad := 0
	for _, o := range obls {
		status := "ok"
		if !o.Discharged() {
			status = "FAIL"
			bad++
		}
		if *verbose || status == "FAIL" {
			fmt.Printf("%-4s %-8s %-12s %6.2fs %s  [%s] %s\n", status, o.Result.Verdict, o.Result.Solver, o.Result.TimeS, o.Name, o.Pos, o.Descr)
			if status == "FAIL" && o.Result.Verdict == "error" {
				fmt.Println(firstLines(o.Result.Output, 5))
			}
		}
	}
	fmt.Printf("%d obligations, %d not discharged; queries in %s\n", len(obls), bad, dir)
}

func firstLines(s string, n int) string {
	ls := strings.Split(s, "\n")
	if len(ls) > n {
		ls = ls[:n]
	}
	return strings.Join(ls, "\n")
}

// cmdSweep: govc sweep [-t secs] <pkg> : zero-annotation safety sweep over every function of the package (development aid).
func cmdSweep(args []string) {
	fs := flag.NewFlagSet("sweep", flag.ExitOnError)
	timeout := fs.Int("t", 5, "per-obligation timeout (s)")
	fs.Parse(args)
	pkg := fs.Arg(0)
	if !strings.Contains(pkg, "/") {
		pkg = "mvdan.cc/sh/v3/" + pkg
	}
	P, err := load(pkg)
	if err != nil {
		fmt.Fprintln(os.Stderr, err)
		os.Exit(2)
	}
	CS, err := loadContracts(P.Dir, verifDir(), repoPkgs)
	if err != nil {
		fmt.Fprintln(os.Stderr, err)
		os.Exit(2)
	}
	sp := P.Pkgs[pkg]
	var fns []*ssa.Function
	for f := range ssautilAllFunctions(P.Prog) {
		p := f.Pkg
		if p == nil && f.Parent() != nil {
			p = f.Parent().Pkg
		}
		if p == sp && len(f.Blocks) > 0 && f.Synthetic == "" {
			fns = append(fns, f)
		}
	}
	sort.Slice(fns, func(i, j int) bool { return fns[i].String() < fns[j].String() })
	var obls []*Obligation
	perFn := map[string]int{}
	for _, fn := range fns {
		ct := CS.Funcs[funcKey(fn)]
		r := encodeFunc(P, CS, fn, ct)
		for _, o := range r.Obls {
			if o.Expect == "" {
				obls = append(obls, o)
				perFn[r.Name]++
			}
		}
	}
	dir := scratchDir("sweep")
	dischargeAll(obls, dir, *timeout, false, 16)
	bad := 0
	badFn := map[string]int{}
	for _, o := range obls {
		if !o.Discharged() {
			bad++
			badFn[o.Func]++
			fmt.Printf("FAIL %-8s %s [%s] %s\n", o.Result.Verdict, o.Name, o.Pos, o.Descr)
		}
	}
	clean := 0
	var cleanList []string
	for f, n := range perFn {
		if badFn[f] == 0 {
			clean++
			cleanList = append(cleanList, fmt.Sprintf("%s(%d)", f, n))
		}
	}
	sort.Strings(cleanList)
	fmt.Printf("%d functions, %d obligations, %d failing; %d functions with obligations are clean:\n%s\n", len(fns), len(obls), bad, clean, strings.Join(cleanList, " "))
}
