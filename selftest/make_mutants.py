#!/usr/bin/env python3
"""Builds the must-fail corpus /verif/selftest/mutants/<prop>/*.patch from (a) sed-style edits listed below and
(b) the confirmed seeded changes under /verif/seeded. Each patch starts with '# expect: <substring of the name of an
obligation that must fail>'. Run from /verif after /repo changes; patches are relative to /repo's HEAD."""
import os,subprocess,shutil,tempfile,sys,re
V='/verif'; R='/repo'
EDITS=[
 # prop, name, file, (old, new), expect
 ("C33","insert-at-pos-plus-1","internal/sparse.go",("slices.Insert(indexes, pos, k)","slices.Insert(indexes, pos+1, k)"),"internal.SetIndexedElem#"),
 ("C33","forget-canonical","internal/sparse.go",("\tlist = slices.Insert(list, pos, val)\n\tindexes = slices.Insert(indexes, pos, k)\n\treturn list, CanonicalIndexes(indexes)","\tlist = slices.Insert(list, pos, val)\n\tindexes = slices.Insert(indexes, pos, k)\n\treturn list, indexes"),"internal.SetIndexedElem#ensures@wf"),
 ("C33","append-when-beyond-end","internal/sparse.go",("if k == len(list) {","if k >= len(list) {"),"internal.SetIndexedElem#"),
 ("C33","delete-noop","internal/sparse.go",("slices.Delete(list, pos, pos+1)","slices.Delete(list, pos, pos)"),"internal.DeleteIndexedElem#"),
 ("C33","indexedmax-off-by-one","internal/sparse.go",("return len(list) - 1","return len(list)"),"internal.IndexedMax#"),
 ("C33","canonical-skips-first","internal/sparse.go",("if k != i {","if k != i && i > 0 {"),"internal.CanonicalIndexes#"),
 ("C20","leq-geq-swapped","expand/arith.go",("return oneIf(x <= y), nil","return oneIf(x >= y), nil"),"expand.binArit#ensures@leq"),
 ("C20","shr-logical","expand/arith.go",("return x >> uint(y), nil","return int(uint(x) >> uint(y)), nil"),"expand.binArit#ensures@shr"),
 ("C20","pow-zero-exponent-error","expand/arith.go",("if y < 0 {\n\t\t\treturn 0, fmt.Errorf(\"exponent less than 0\")","if y <= 0 {\n\t\t\treturn 0, fmt.Errorf(\"exponent less than 0\")"),"expand.binArit#ensures@pow"),
 ("C20","intpow-adds","expand/arith.go",("\t\t\tp *= a","\t\t\tp += a"),"expand.intPow#"),
 ("C20","rem-uses-quo","expand/arith.go",("return x % y, nil","return x / y, nil"),"expand.binArit#ensures@rem"),
 ("C09","fi-width-3","syntax/nodes.go",("posAddCol(c.FiPos, 2)","posAddCol(c.FiPos, 3)"),"syntax.IfClause.End#"),
 ("C09","after-geq","syntax/nodes.go",("return p.offs > p2.offs","return p.offs >= p2.offs"),"syntax.Pos.After#"),
 ("C09","col-shift-one-side","syntax/nodes.go",("func (p Pos) Line() uint { return uint(p.lineCol >> colBitSize) }","func (p Pos) Line() uint { return uint(p.lineCol >> (colBitSize + 1)) }"),"syntax.Pos.Line#"),
 ("C09","posaddcol-keeps-col-zero-rule","syntax/nodes.go",("\tif col > 0 {\n\t\tif col += int64(n)","\tif col >= 0 {\n\t\tif col += int64(n)"),"syntax.posAddCol#"),
 ("C14","drop-cond-walk","syntax/walk.go",("\tcase *WhileClause:\n\t\twalkList(node.Cond, f)\n","\tcase *WhileClause:\n"),"syntax.Walk#children@*WhileClause.Cond"),
 ("C14","visit-twice","syntax/walk.go",("\tcase *ArithmExp:\n\t\tWalk(node.X, f)","\tcase *ArithmExp:\n\t\tWalk(node.X, f)\n\t\tWalk(node.X, f)"),"syntax.Walk#children@*ArithmExp.X"),
 ("C14","nil-before-children","syntax/walk.go",("\tif !f(node) {\n\t\treturn\n\t}\n","\tif !f(node) {\n\t\treturn\n\t}\n\tf(nil)\n"),"syntax.Walk#protocol"),
 ("C27","subshell-shares-funcs","interp/api.go",("r2.Funcs = maps.Clone(r.Funcs)","r2.Funcs = r.Funcs"),"interp.Runner.subshell#fresh@Funcs"),
 ("C27","subshell-shares-dirstack","interp/api.go",("r2.dirStack = append(r2.dirBootstrap[:0], r.dirStack...)","r2.dirStack = r.dirStack"),"interp.Runner.subshell#fresh@dirStack"),
 ("C27","unset-elem-no-clone","interp/vars.go",("\t\tvr.List = slices.Clone(vr.List)\n\t\tvr.Indexes = slices.Clone(vr.Indexes)\n\t\tvr.List, vr.Indexes = internal.DeleteIndexedElem","\t\tvr.List, vr.Indexes = internal.DeleteIndexedElem"),"interp.Runner.unsetElem#write@"),
 ("C29","funcscope-parent-env","interp/runner.go",("r.writeEnv = &overlayEnviron{parent: r.writeEnv, funcScope: true}","r.writeEnv = &overlayEnviron{parent: r.Env, funcScope: true}"),"#funcscope-parent@"),
 ("C30","reset-keeps-funcs","interp/api.go",("\t\t// emptied below, to reuse the space\n\t\tVars: r.Vars,","\t\t// emptied below, to reuse the space\n\t\tVars: r.Vars,\n\t\tFuncs: r.Funcs,"),"interp.Runner.Reset#reset@Funcs"),
 ("C30","reset-forgets-opts","interp/api.go",("\t\topts:   r.origOpts,\n",""),"interp.Runner.Reset#reset@opts"),
 ("C30","reset-vars-not-cleared","interp/api.go",("\t} else {\n\t\tclear(r.Vars)\n\t}","\t}"),"interp.Runner.Reset#reset@Vars"),
 ("C08","reset-forgets-line","syntax/parser.go",("p.offs, p.line, p.col = 0, 1, 1","p.offs, p.col = 0, 1"),"syntax.Parser.reset#"),
 ("C08","reset-keeps-openbquotes","syntax/parser.go",("\tp.openBquotes = 0\n",""),"syntax.Parser.reset#"),
 ("C08","printer-reset-keeps-level","syntax/printer.go",("p.lastLevel, p.level = 0, 0","p.lastLevel = 0"),"syntax.Printer.reset#"),
 ("C36","negated-equal","cmd/shfmt/main.go",("if !bytes.Equal(src, res) {","if bytes.Equal(src, res) {"),"cmd/shfmt.formatBytes#ensures@"),
 ("C36","list-without-status","cmd/shfmt/main.go",("\t\tif list.val != \"false\" && !write.val {\n\t\t\treturn errFormattingDiffers\n\t\t}\n",""),"cmd/shfmt.formatBytes#ensures@status-differs-if"),
 ("C35","drop-isregular","cmd/shfmt/main.go",("if !info.Mode().IsRegular() {","if false {"),"cmd/shfmt.formatBytes#ensures@written-only-if"),
 ("C35","fixed-perm","cmd/shfmt/main.go",("perm := info.Mode().Perm()","perm := fs.FileMode(0o644)"),"cmd/shfmt.formatBytes#ensures@written-only-if"),
 ("C35","stat-for-lstat","cmd/shfmt/main.go",("info, err := os.Lstat(path)","info, err := os.Stat(path)"),"cmd/shfmt.formatBytes#ensures@written-only-if"),
 ("C35","os-writefile","cmd/shfmt/main.go",("if err := maybeio.WriteFile(path, res, perm); err != nil {","if err := func() error { _ = maybeio.WriteFile; return os.WriteFile(path, res, perm) }(); err != nil {"),"cmd/shfmt#file-effects@"),
 ("C28","shift-negative-again","interp/builtin.go",("\t\t\t\tif n2 < 0 {\n\t\t\t\t\treturn failf(1, \"shift: %d: shift count out of range\\n\", n2)\n\t\t\t\t}\n",""),"interp.Runner.builtin#slice@r.Params[n:]"),
 ("C28","getopts-stale-index","interp/builtin.go",("\tif g.runeidx >= len(opts) {\n\t\t// The arguments changed since the previous call; start over on this one.\n\t\tg.runeidx = 0\n\t}\n",""),"interp.getopts.next#index@opts[g.runeidx]"),
 ("C28","wait-no-lower-bound","interp/builtin.go",("if !ok || pid <= 0 || pid > int64(len(r.bgProcs)) {","if !ok || pid > int64(len(r.bgProcs)) {"),"interp.Runner.builtin#index@r.bgProcs[pid-1]"),
 ("C34","get-too-short-match","expand/environ.go",("\t\t\tif c := l.compare(pair, name); c != 0 {\n\t\t\t\treturn c\n\t\t\t}\n\t\t\t// The pair is the name itself, so it sorts before \"name=\".\n\t\t\treturn -1","\t\t\treturn l.compare(pair, name)"),"expand.listEnviron.Get$1#ensures@zero-means-long"),
 ("C34","keep-invalid-pairs","expand/environ.go",("if name == \"\" || !ok {","if !ok {"),"expand.listEnviron_#"),
 ("C11","recover-before-lang-check","syntax/parser.go",("\t\tif p.recoverError() {\n\t\t\treturn []*Stmt{{Position: recoveredPos}}, nil\n\t\t}\n\t\tp.followErr(lpos, left, noQuote(\"a statement list\"))","\t\tif p.recoverError() {\n\t\t\treturn []*Stmt{{Position: recoveredPos}}, nil\n\t\t}"),"syntax#recovery-only-on-error@"),
 ("C11","zsh-period-again","syntax/parser_arithm.go",("\t\t// Even where floating point is allowed, a period here means the expression did not end.\n\t\tp.matchingErr(pos, left, right)\n",""),"syntax#recovery-only-on-error@"),
 ("C16","sequence-wraps-again","expand/braces.go",("\t\t\t\t\tif uint64(to)-uint64(n) < step {\n\t\t\t\t\t\tbreak\n\t\t\t\t\t}\n","\t\t\t\t\tif n > to {\n\t\t\t\t\t\tbreak\n\t\t\t\t\t}\n"),"expand.bracesSeqRec#"),
 ("C16","zero-step","expand/braces.go",("\t\t\t\t} else if n > 0 {\n\t\t\t\t\tstep = uint64(n)\n\t\t\t\t}","\t\t\t\t} else {\n\t\t\t\t\tstep = uint64(n)\n\t\t\t\t}"),"expand.bracesSeqRec#"),
 ("C20","assgn-rem-uses-quo","expand/arith.go",("\t\tval %= arg","\t\tval /= arg"),"expand.Config.assgnArit#ensures@rem"),
 ("C04","negate-ordering","syntax/simplify.go",("\t\tcase TsNoMatch:\n\t\t\ty.Op = TsMatch\n\t\t\ts.modified = true\n\t\t\treturn y\n","\t\tcase TsNoMatch:\n\t\t\ty.Op = TsMatch\n\t\t\ts.modified = true\n\t\t\treturn y\n\t\tcase TsBefore:\n\t\t\ty.Op = TsAfter\n\t\t\ts.modified = true\n\t\t\treturn y\n"),"syntax.simplifier.removeNegateTest#ensures@complement-table"),
 ("C06","quoted-hdoc-ignores-eof","syntax/lexer.go",("\tfor ; ; r = p.rune() {\n\t\tif r == runeEOF {\n\t\t\treturn nil\n\t\t}\n\t\tfor p.quote == hdocBodyTabs && r == '\\t' {","\tfor ; ; r = p.rune() {\n\t\tfor p.quote == hdocBodyTabs && r == '\\t' {"),"syntax#eof-exit@Parser.quotedHdocWord"),
 ("C06","hdoc-body-ignores-eof","syntax/lexer.go",("\t\t\tif r != '\\n' {\n\t\t\t\treturn // hit an unexpected EOF or closing backquote\n\t\t\t}\n",""),"syntax#eof-exit@Parser.advanceLitHdoc"),
 ("C06","skipspace-ignores-eof","syntax/lexer.go",("\t\tcase runeEOF:\n\t\t\tp.tok = _EOF\n\t\t\treturn\n\t\tcase escNewl:\n\t\t\tr = p.rune()\n\t\tcase ' ', '\\t', '\\r':","\t\tcase escNewl:\n\t\t\tr = p.rune()\n\t\tcase ' ', '\\t', '\\r', runeEOF:"),"syntax#eof-exit@Parser.next"),
 ("C04","forget-modified","syntax/simplify.go",("\t\tcase TsEmpStr:\n\t\t\ty.Op = TsNempStr\n\t\t\ts.modified = true\n","\t\tcase TsEmpStr:\n\t\t\ty.Op = TsNempStr\n"),"syntax.simplifier.removeNegateTest#ensures@changed-sets-modified"),
 ("C23","combine-keeps-one-more","expand/expand.go",("\t\tfpos[n-1].end = fpos[len(fpos)-1].end\n\t\tfpos = fpos[:n]","\t\tfpos[n-1].end = fpos[len(fpos)-1].end\n\t\tfpos = fpos[:n+1]"),"expand.ReadFields#"),
 ("C23","field-end-past-line","expand/expand.go",("\t\t\t\tfpos[len(fpos)-1].end = len(runes)\n\t\t\t\tinfield = false","\t\t\t\tfpos[len(fpos)-1].end = len(runes) + 1\n\t\t\t\tinfield = false"),"expand.ReadFields#inv-pres@loop1.field-ranges"),
 ("C23","no-empty-check","expand/expand.go",("\tif len(fpos) == 0 {\n\t\treturn nil\n\t}\n\tif infield {","\tif infield {"),"expand.ReadFields#index@fpos[0]"),
 ("C23","combine-at-n","expand/expand.go",("\tcase n != -1 && n < len(fpos):","\tcase n < len(fpos):"),"expand.ReadFields#"),
 ("C23","readline-drops-unchecked","interp/builtin.go",("\t\t\tcase !raw && b == '\\n' && esc:","\t\t\tcase !raw && b == '\\n':"),"interp.Runner.readLine#slice@"),
 ("C23","readline-escape-never-cleared","interp/builtin.go",("\t\t\t\tline = append(line, b)\n\t\t\t\tesc = !esc","\t\t\t\tline = append(line, b)\n\t\t\t\tesc = true"),"interp.Runner.readLine#inv-pres@loop1.line-is-spec"),
 ("C23","readline-raw-keeps-escapes","interp/builtin.go",("\t\t\tcase !raw && b == '\\\\':","\t\t\tcase b == '\\\\':"),"interp.Runner.readLine#inv-pres@loop1.line-is-spec"),
 ("C23","readline-returns-newline","interp/builtin.go",("\t\t\tcase b == '\\n':\n\t\t\t\treturn line, nil","\t\t\tcase b == '\\n':\n\t\t\t\treturn append(line, b), nil"),"interp.Runner.readLine#ensures@line-at-newline"),
 ("C28","flag-keeps-one-letter-pending","interp/builtin.go",("\tif len(arg) > 2 {\n\t\t// We have \"-ab\", so return \"-a\" and keep \"-b\".","\tif len(arg) >= 2 {\n\t\t// We have \"-ab\", so return \"-a\" and keep \"-b\"."),"interp.flagParser.flag#onstore@flagParser.current"),
 ("C28","more-accepts-any-argument","interp/builtin.go",("\tif len(arg) == 0 || (arg[0] != '-' && arg[0] != '+') {\n\t\t// The next argument is not a flag.\n\t\treturn false\n\t}","\tif len(arg) == 0 {\n\t\t// The next argument is not a flag.\n\t\treturn false\n\t}"),"interp.flagParser.more#ensures@more-means-pending"),
 ("C28","params-forgets-lone-plus","interp/api.go",("\t\t\tif flag == \"-\" || flag == \"+\" {","\t\t\tif flag == \"-\" {"),"interp.Params$1#index@flag[1]"),
 ("C28","test-v-empty-name-again","interp/test.go",("\t\treturn x != \"\" && r.lookupVar(x).IsSet()","\t\treturn r.lookupVar(x).IsSet()"),"interp.Runner.unTest#call-requires@interp.Runner.lookupVar"),
 ("C28","untest-forgets-an-operator","interp/test.go",("\tcase syntax.TsNot:\n\t\treturn x == \"\"\n",""),"interp.Runner.unTest#panic@"),
 ("C16","yield-wrapper-appends-in-place","expand/braces.go",("\t\t\t\tw.Parts = slices.Concat(left, w.Parts)","\t\t\t\tw.Parts = append(left, w.Parts...)"),"expand.bracesSeqRec$1$1#onstore@Word.Parts"),
 ("C28","assign-name-one-byte-short","syntax/parser.go",("\t\tas.Name = p.lit(p.pos, p.val[:nameEnd])","\t\tas.Name = p.lit(p.pos, p.val[:nameEnd-1])"),"syntax.Parser.getAssign#onstore@Assign.Name"),
 ("C18","hasmeta-forgets-question-mark","pattern/pattern.go",("\t\tcase '*', '?':\n\t\t\treturn true","\t\tcase '*':\n\t\t\treturn true"),"pattern.HasMeta#"),
 ("C18","hasmeta-skips-two","pattern/pattern.go",("\t\tcase '\\\\':\n\t\t\ti++\n\t\tcase '*', '?':","\t\tcase '\\\\':\n\t\t\ti += 2\n\t\tcase '*', '?':"),"pattern.HasMeta#"),
 ("C18","hasmeta-any-bracket","pattern/pattern.go",("\t\t\tif openBracket {\n\t\t\t\treturn true\n\t\t\t}","\t\t\tif openBracket || i > 0 {\n\t\t\t\treturn true\n\t\t\t}"),"pattern.HasMeta#"),
 ("C18","quotemeta-forgets-bracket","pattern/pattern.go",("\t\tcase '*', '?', '[', '\\\\':\n\t\t\tsb.WriteByte('\\\\')","\t\tcase '*', '?', '\\\\':\n\t\t\tsb.WriteByte('\\\\')"),"pattern.QuoteMeta#"),
 ("C18","quotemeta-fastpath-misses-backslash","pattern/pattern.go",("\t\tcase '*', '?', '[', '\\\\':\n\t\t\tneedsEscaping = true","\t\tcase '*', '?', '[':\n\t\t\tneedsEscaping = true"),"pattern.QuoteMeta#"),
 ("C18","quotemeta-escape-after","pattern/pattern.go",("\t\t\tsb.WriteByte('\\\\')\n\t\t}\n\t\tsb.WriteRune(r)","\t\t\tsb.WriteRune(r)\n\t\t\tsb.WriteByte('\\\\')\n\t\t\tcontinue\n\t\t}\n\t\tsb.WriteRune(r)"),"pattern.QuoteMeta#"),
 ("C13","dq-forgets-backquote","syntax/quote.go",("\t\tcase '\"', '\\\\', '`', '$':\n\t\t\tb.WriteByte('\\\\')","\t\tcase '\"', '\\\\', '$':\n\t\t\tb.WriteByte('\\\\')"),"syntax.Quote#inv-pres@loop3"),
 ("C13","single-quotes-around-a-quote","syntax/quote.go",("\tif !strings.Contains(s, \"'\") {","\tif !strings.Contains(s, \"\\\"\") {"),"syntax.Quote#ensures@shape"),
 ("C13","equals-sign-unquoted","syntax/quote.go",("\t\t\t// Might result in an assignment.\n\t\t\t'=':","\t\t\t// Might result in an assignment.\n\t\t\t'%':"),"syntax.Quote#"),
 ("C13","posix-error-for-mksh","syntax/quote.go",("\t\t\tif lang.in(LangPOSIX) {\n\t\t\t\treturn \"\", &QuoteError{ByteOffset: offs, Message: quoteErrPOSIX}","\t\t\tif lang.in(LangPOSIX | LangMirBSDKorn) {\n\t\t\t\treturn \"\", &QuoteError{ByteOffset: offs, Message: quoteErrPOSIX}"),"syntax.Quote#ensures@posix-error-only-for-posix"),
 ("C13","null-byte-accepted","syntax/quote.go",("\t\tcase '\\x00':\n\t\t\treturn \"\", &QuoteError{ByteOffset: offs, Message: quoteErrNull}\n",""),"syntax.Quote#"),
 ("C04","simplifyword-keeps-pending-backslash","syntax/simplify.go",("\t\t\tcase '$', '\"', '`':\n\t\t\t\tescaped = false","\t\t\tcase '$', '\"', '`':"),"syntax.simplifier.simplifyWord#"),
 ("C04","simplifyword-forgets-modified","syntax/simplify.go",("\t\ts.modified = true\n\t\twps[i] = &SglQuoted{","\t\twps[i] = &SglQuoted{"),"syntax.simplifier.simplifyWord#onstore@wps"),
 ("C11","posix-accepts-extglob","syntax/parser.go",("\t\tp.checkLang(p.pos, langBashLike|LangMirBSDKorn, \"extended globs\")\n",""),"syntax#posix-gate@Parser.wordPart:new-ExtGlob"),
 ("C11","posix-accepts-test-clause","syntax/parser.go",("\t\tcase \"[[\":\n\t\t\tif p.lang.in(langBashLike | LangMirBSDKorn | LangZsh) {\n\t\t\t\tp.testClause(s)\n\t\t\t}","\t\tcase \"[[\":\n\t\t\tp.testClause(s)"),"syntax#posix-gate@Parser.testClause:new-TestClause"),
 ("C11","posix-accepts-dollar-quotes","syntax/lexer.go",("\t\t\tif !p.lang.in(langBashLike | LangMirBSDKorn | LangZsh) {\n\t\t\t\tbreak\n\t\t\t}\n\t\t\tp.rune()\n\t\t\treturn dollSglQuote","\t\t\tp.rune()\n\t\t\treturn dollSglQuote"),"syntax#posix-gate@"),
 ("C11","posix-set-widened","syntax/parser.go",("p.checkLang(p.pos, langBashLike|LangMirBSDKorn|LangZsh, \"arrays\")\n\t\tas.Array = &ArrayExpr{Lparen: p.pos}","p.checkLang(p.pos, langBashLike|LangMirBSDKorn|LangZsh|LangPOSIX, \"arrays\")\n\t\tas.Array = &ArrayExpr{Lparen: p.pos}"),"syntax#posix-gate@Parser.getAssign"),
 ("C20","atoi-leading-zero-decimal","expand/arith.go",("\tcase strings.HasPrefix(s, \"0\"):\n\t\tbase = 8","\tcase strings.HasPrefix(s, \"0\"):\n\t\tbase = 10"),"expand.atoi#ensures@literal-forms"),
 ("C20","atoi-base-limit-36","expand/arith.go",("if err != nil || base < 2 || base > 64 {","if err != nil || base < 2 || base > 36 {"),"expand.atoi#ensures@literal-forms"),
 ("C20","large-base-upper-case-digits","expand/arith.go",("d = int64(c-'A') + 36","d = int64(c-'A') + 10"),"expand.atoiLargeBase#ensures@"),
 ("C34","comparator-equal-sign-reversed","expand/environ.go",("return cmp.Compare(eq, '=')","return cmp.Compare('=', eq)"),"expand.listEnviron.Get$1#ensures@agrees-with-sort-key"),
 ("C34","comparator-prefix-order-reversed","expand/environ.go",("\t\tif c == 0 {\n\t\t\treturn cmp.Compare(eq, '=')\n\t\t}\n\t\treturn c","\t\tif c == 0 {\n\t\t\treturn cmp.Compare(eq, '=')\n\t\t}\n\t\treturn -c"),"expand.listEnviron.Get$1#ensures@agrees-with-sort-key"),
 ("C34","sort-by-whole-pair","expand/environ.go",("\t\treturn env.compare(a[:isep], b[:jsep])","\t\treturn env.compare(a, b)"),"expand.listEnviron_$1#ensures@compares-keys"),
 ("C28","select-reply-no-lower-bound","interp/runner.go",("c > 0 && c <= len(items)","c <= len(items)"),"interp.Runner.cmd#index@items[c-1]"),
 ("C28","alias-loop-steps-back","interp/runner.go",("\t\t\ti += len(als.args)\n","\t\t\ti += len(als.args) - 1\n"),"interp.Runner.cmd#"),
 ("C28","call-pos-of-empty-args","interp/runner.go",("\t\tif len(fields) == 0 {\n\t\t\tfor _, as := range cm.Assigns {","\t\tif len(fields) == 0 && len(cm.Assigns) > 0 {\n\t\t\tfor _, as := range cm.Assigns {"),"interp.Runner.cmd#index@"),
 ("C30","set-update-skipped-on-error","interp/builtin.go",("\t\terr := Params(args...)(r)\n\t\t// The options before an invalid one have been set already.\n\t\tr.updateExpandOpts()\n\t\tif err != nil {\n\t\t\treturn failf(2, \"set: %v\\n\", err)\n\t\t}\n","\t\tif err := Params(args...)(r); err != nil {\n\t\t\treturn failf(2, \"set: %v\\n\", err)\n\t\t}\n\t\tr.updateExpandOpts()\n"),"interp#opts-mirrored@Runner.builtin"),
 ("C30","run-forgets-expand-config","interp/api.go",("\tr.fillExpandConfig(ctx)\n\tr.exit = exitStatus{}","\tr.exit = exitStatus{}"),"interp#opts-mirrored@Runner.Run"),
 ("C20","large-base-accepts-digit-equal-to-base","expand/arith.go",("\t\tif d >= base {\n\t\t\treturn 0","\t\tif d > base {\n\t\t\treturn 0"),"expand.atoiLargeBase#"),
]
SEEDS=[ # prop, seed dir, expect
 ("C09","C09-2","syntax.ArithmExp.End#"),
 ("C14","C14-1","syntax.Walk#"),("C14","C14-2","syntax.walkComments#shape"),
 ("C27","C27-1","interp.Runner.assignVal#write@"),("C27","C27-2","interp.Runner.setVarWithIndex#write@"),
 ("C29","C29-1","interp.Runner.hdocString"),("C29","C29-2","interp.Runner.assignVal#write@"),
 ("C33","C33-1","interp.Runner.setVarWithIndex#write@"),
 ("C28","C28-1","interp.Runner.builtin#index@r.bgProcs[pid-1]"),("C28","C28-2","expand.Config.assignElem#call-requires@internal.SetIndexedElem"),
 ("C30","C30-1","interp.Runner.Reset#reset@ecfg"),("C30","C30-2","interp.Runner.Reset#reset@alias"),
 ("C08","C08-1","syntax.Parser.reset#ensures@lexer"),
 ("C36","C36-1","cmd/shfmt.propsOptions#"),("C36","C36-2","cmd/shfmt.formatBytes#ensures@status-differs-if"),
 ("C35","C35-1","cmd/shfmt#file-effects@"),("C35","C35-2","cmd/shfmt#file-effects@"),
 ("C11","C11-1","syntax#recovery-only-on-error@"),("C11","C11-3","syntax#bash-implies-bats@"),
 ("C16","C16-1","expand.bracesSeqRec#inv-init@loop2.pad-covers-endpoints"),
 ("C20","C20-1","expand.Config.assgnArit#ensures@reads-old-value-first"),("C20","C20-2","syntax.Parser.arithmExpr#precedence@"),
 ("C04","C04-1","syntax.simplifier.visit#ensures@match-keeps-quotes"),("C04","C04-2","syntax.simplifier.removeNegateTest#ensures@complement-table"),
 ("C13","C13-1","syntax.Quote#"),("C06","C06-3","syntax.Parser.zshNumRange#call-requires@syntax.Parser.fill"),("C13","C13-2","syntax.Quote#inv-pres@loop2.dollar-quote-length"),("C13","C13-4","syntax.Quote#inv-pres@loop2.dollar-quote-length"),("C28","C28-3","interp.Runner.builtin#onstore@"),("C04","C04-4","syntax.simplifier.simplifyWord#"),("C34","C34-1","expand.listEnviron_#"),("C34","C34-3","expand.listEnviron_#"),("C09","C09-1","syntax.Parser.rune#"),("C09","C09-3","syntax.Stmt.End#"),("C09","C09-4","syntax.Parser.rune#"),("C33","C33-2","expand.Config.sliceElems#ensures@sparse-offset"),("C20","C20-4","syntax.Parser.arithmExpr#precedence@"),("C18","C18-1","pattern.QuoteMeta#"),("C18","C18-2","pattern.HasMeta#"),
 ("C28","C23-2","interp.Runner.readLine#inv-pres@"),("C23","C23-2","interp.Runner.readLine#inv-pres@"),("C23","C23-1","expand.ReadFields#inv-"),
 ("C06","C06-2","syntax#eof-exit@Parser.zshSubFlags"),
 ("C08","C06-1","syntax.Parser.reset#"),
 ("C16","C16-3","expand.bracesSeqRec$1$1#onstore@Word.Parts"),("C23","C23-3","interp.Runner.readLine#inv-pres@loop1.line-is-spec"),("C28","C28-4","interp.Runner.cmd#index@items[c-1]"),("C34","C34-2","expand.listEnviron.Get$1#ensures@agrees-with-sort-key"),("C30","C30-4","interp#opts-mirrored@Runner.builtin"),
 ("C07","C07-1","syntax#refill-retry@Parser.rune"),("C07","C07-2","syntax#refill-at-boundary@Parser.rune"),("C07","C08-2","syntax#refill-at-boundary@Parser.advanceLitHdoc"),
]
REVERTS=[ # prop, fix commit in /repo whose reversal must be caught, expect
 ("C11","bd4a91d","syntax#posix-gate@Parser.arithmExprValue:ParamExp.Index"),
 ("C04","1629043","syntax.simplifier.simplifyWord#onstore@SglQuoted.Dollar"),
 ("C09","c1165de","syntax.Parser.rune#inv-init@loop1.col-tracks-next-byte"),
 ("C34","3a19e13","expand.listEnviron.Get#ensures@separator-in-name-is-unset"),
 ("C28","e8575ea","interp.Runner.cmd#panic@"),
 ("C30","4ce7a80","interp#opts-mirrored@Runner.builtin"),
 ("C28","7083a6e","interp."),
 ("C28","c83dabc","expand.Config.paramExp#panic@"),
 ("C28","91e7a01","syntax.Parser.hasValidIdent#ensures@ident-has-name"),
 ("C07","baece75","syntax#refill-at-boundary@Parser.rune"),
 ("C07","fd8acef","syntax#refill-at-boundary@Parser.next"),
 ("C07","051bed0","syntax#refill-retry@Parser.peekTwo"),
 ("C07","cfa8c03","syntax#refill-retry@Parser.zshNumRange"),
]
out=f'{V}/selftest/mutants'
shutil.rmtree(out,ignore_errors=True)
n=0
for prop,name,file,(old,new),expect in EDITS:
    src=open(f'{R}/{file}').read()
    if src.count(old)<1:
        print('EDIT DOES NOT APPLY:',prop,name); continue
    with tempfile.TemporaryDirectory(dir='/var/tmp') as d:
        os.makedirs(os.path.dirname(f'{d}/a/{file}'),exist_ok=True); os.makedirs(os.path.dirname(f'{d}/b/{file}'),exist_ok=True)
        open(f'{d}/a/{file}','w').write(src); open(f'{d}/b/{file}','w').write(src.replace(old,new,1))
        diff=subprocess.run(['diff','-u',f'a/{file}',f'b/{file}'],cwd=d,capture_output=True,text=True).stdout
    os.makedirs(f'{out}/{prop}',exist_ok=True)
    open(f'{out}/{prop}/{name}.patch','w').write(f'# expect: {expect}\n'+diff); n+=1
for prop,seed,expect in SEEDS:
    p=f'{V}/seeded/{seed}/patch.diff'
    if os.path.exists(f'{V}/seeded/{seed}/patch.ported.diff'): p=f'{V}/seeded/{seed}/patch.ported.diff'
    if not os.path.exists(p): print('no seed',seed); continue
    # re-base the seed onto the current tree: apply with patch(1) to a scratch copy and re-diff
    with tempfile.TemporaryDirectory(dir='/var/tmp') as d:
        subprocess.run(['cp','-r',R+'/.',d+'/b'],check=True); shutil.rmtree(d+'/b/.git',ignore_errors=True)
        subprocess.run(['cp','-r',d+'/b',d+'/a'],check=True)
        r=subprocess.run(['patch','-p1','-s','-i',p],cwd=d+'/b',capture_output=True,text=True)
        if r.returncode!=0: print('SEED DOES NOT APPLY:',seed,r.stdout[:200]); continue
        diff=subprocess.run(['diff','-ruN','--exclude=*.orig','--exclude=*.rej','a','b'],cwd=d,capture_output=True,text=True).stdout
    os.makedirs(f'{out}/{prop}',exist_ok=True)
    open(f'{out}/{prop}/seed-{seed}.patch','w').write(f'# expect: {expect}\n'+diff); n+=1
for prop,commit,expect in REVERTS:
    diff=subprocess.run(['git','-C',R,'diff',commit,commit+'^'],capture_output=True,text=True).stdout
    r=subprocess.run(['git','-C',R,'apply','--check','-'],input=diff,capture_output=True,text=True)
    if r.returncode!=0: print('REVERT DOES NOT APPLY:',commit,r.stderr[:200]); continue
    os.makedirs(f'{out}/{prop}',exist_ok=True)
    open(f'{out}/{prop}/revert-{commit}.patch','w').write(f'# expect: {expect}\n'+diff); n+=1
print(n,'mutants written')
