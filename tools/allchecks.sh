#!/bin/bash
# runs every claimed quick check on the unchanged tree (rewrites evidence/*.json) and validates the evidence files
cd /verif
[ -z "$(git -C /repo status --porcelain)" ] || { echo "/repo not clean"; exit 2; }
for p in $(python3 -c "import json;print(' '.join(c['property_id'] for c in json.load(open('MANIFEST.json'))['checks']))"); do
  bin/govc check $p --tier quick 2>&1 | grep -E "^property|VIOLATION|KNOWN" | cut -c1-200
done
python3-vt - <<'PY'
import json,jsonschema,glob
sch=json.load(open('/root/.vp/EVIDENCE.schema.json'))
for f in sorted(glob.glob('/verif/evidence/*.json')):
    e=json.load(open(f)); jsonschema.validate(e,sch)
    c=e['coverage']; assert c['obligations']==c['discharged'], f
print('evidence files valid')
PY
