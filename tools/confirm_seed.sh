#!/bin/bash
# usage: confirm_seed.sh <PROP> <k> [worktree] [dest-name] : confirms seed k of /tmp/seed-<PROP> in its own worktree and stores it under /verif/seeded/<PROP>-<k>/
# checks: patch applies; build ok; demo FAILS with the patch; demo PASSES without; full suite passes with the patch (known failures #1317-#1321 ignored)
set -u
P=$1; K=$2; WT=${3:-/tmp/seed-$P}; DEST=${4:-$P-$K}; S=$WT/SEED/$K
export GOFLAGS=-mod=mod GOPROXY=off
cd $WT || exit 2
git checkout -q -- . ; find . -name 'zz_seed_demo_test.go' -delete
[ -f $S/patch.diff ] || { echo "no patch"; exit 2; }
pkgdir=$(head -3 $S/demo_test.go | grep -o -E '(interp|syntax|expand|pattern|shell|cmd/shfmt|internal|fileutil)' | head -1)
[ -n "$pkgdir" ] || pkgdir=$(grep -m1 '^package ' $S/demo_test.go | awk '{print $2}' | sed 's/_test$//')
[ "$pkgdir" = main ] && pkgdir=cmd/shfmt
mv $WT/SEED /tmp/SEED-$P-$$   # keep the demos out of ./...
S=/tmp/SEED-$P-$$/$K
res() { echo "$1"; }
cp $S/demo_test.go $WT/$pkgdir/zz_seed_demo_test.go
without=$(go test -vet=off -count=1 -run 'Seed|ZZ' ./$pkgdir 2>&1 | tail -3)
git apply $S/patch.diff || { echo "PATCH DOES NOT APPLY"; mv /tmp/SEED-$P-$$ $WT/SEED; exit 1; }
build=$(go build ./... 2>&1 | tail -3)
with=$(go test -vet=off -count=1 -run 'Seed|ZZ' ./$pkgdir 2>&1 | tail -3)
rm -f $WT/$pkgdir/zz_seed_demo_test.go
suite=$(go test -vet=off -count=1 ./... 2>&1 | grep -v "^ok\|no test files" | grep -v "TestRunnerRun/#13\(17\|18\|19\|20\|21\)\|--- FAIL: TestRunnerRun (" | grep -E "^(--- FAIL|FAIL|panic)" | head -5)
# timing-based tests flake under machine load: re-run them alone before counting them
flaky='TestParseConfirm|TestKillSignal|TestKillTimeout|TestRunnerContext|TestCancelBlockedStdinRead|TestRunnerTerminalStdIO|TestElapsedString'
if echo "$suite" | grep -qE "$flaky"; then
  rer=$(go test -vet=off -count=1 -run "$flaky" ./syntax ./interp 2>&1 | grep -E "^(--- FAIL|panic)" | head -3)
  if [ -z "$rer" ]; then suite=$(echo "$suite" | grep -vE "$flaky" | grep -v "^FAIL	mvdan.cc/sh/v3/syntax"); echo "(flaky tests passed on re-run)"; fi
fi
git checkout -q -- .
mv /tmp/SEED-$P-$$ $WT/SEED
S=$WT/SEED/$K
echo "pkg=$pkgdir"
echo "WITHOUT: $without" | tail -2
echo "WITH: $with" | tail -2
echo "BUILD: [$build]"
echo "SUITE-FAILS-WITH-PATCH: [$suite]"
ok=1
echo "$without" | grep -q "^ok" || ok=0
echo "$with" | grep -q "FAIL" || ok=0
[ -z "$build" ] || ok=0
# the only allowed suite failure line is the interp package FAIL caused by the known subtests
suite2=$(echo "$suite" | grep -v "^FAIL	mvdan.cc/sh/v3/interp" | grep -v "^FAIL$")
[ -z "$suite2" ] || ok=0
if [ $ok = 1 ]; then
  d=/verif/seeded/$DEST; mkdir -p $d
  cp $S/patch.diff $d/patch.diff; cp $S/demo_test.go $d/demo_test.go; cp $S/README.md $d/README.agent.md 2>/dev/null
  echo "CONFIRMED -> $d (demo pkg $pkgdir)"
  echo "$pkgdir" > $d/.pkg
else
  echo "NOT CONFIRMED"
fi
