#!/usr/bin/env python3
"""Writes the C09 token-width contracts for Pos()/End() methods into a //@ block.
The TABLE below is the specification: it was written from the node documentation in syntax/nodes.go and the
property text (positions of keywords, operators and quotes point at that exact text), NOT derived from the method
bodies. Only the receiver variable name of each method is read from the source (contracts must use it)."""
import re,sys
src=open('/repo/syntax/nodes.go').read()
recv={}
for m in re.finditer(r'^func \((\w+) \*?(\w+)\) (Pos|End)\(\) Pos',src,re.M):
    recv[(m.group(2),m.group(3))]=m.group(1)
# (Type, method) -> postcondition over receiver R. pacOK(r,p,n) is the relational spec of posAddCol.
T={
 ('Comment','Pos'):'result == R.Hash',
 ('Comment','End'):'pacOK(result, R.Hash, 1 + len(R.Text))',   # '#' plus the text
 ('Stmt','Pos'):'result == R.Position',
 ('Subshell','Pos'):'result == R.Lparen', ('Subshell','End'):'pacOK(result, R.Rparen, 1)',      # ")"
 ('Block','Pos'):'result == R.Lbrace',   ('Block','End'):'pacOK(result, R.Rbrace, 1)',          # "}"
 ('IfClause','Pos'):'result == R.Position', ('IfClause','End'):'pacOK(result, R.FiPos, 2)',     # "fi"
 ('WhileClause','Pos'):'result == R.WhilePos', ('WhileClause','End'):'pacOK(result, R.DonePos, 4)', # "done"
 ('ForClause','Pos'):'result == R.ForPos',
 ('ForClause','End'):'ite(R.Braces, pacOK(result, R.DonePos, 1), pacOK(result, R.DonePos, 4))',         # "}" or "done"
 ('CStyleLoop','Pos'):'result == R.Lparen', ('CStyleLoop','End'):'pacOK(result, R.Rparen, 2)',  # "))"
 ('FuncDecl','Pos'):'result == R.Position',
 ('Lit','Pos'):'result == R.ValuePos', ('Lit','End'):'result == R.ValueEnd',
 ('SglQuoted','Pos'):'result == R.Left', ('SglQuoted','End'):'pacOK(result, R.Right, 1)',       # closing quote
 ('DblQuoted','Pos'):'result == R.Left', ('DblQuoted','End'):'pacOK(result, R.Right, 1)',
 ('CmdSubst','Pos'):'result == R.Left', ('CmdSubst','End'):'pacOK(result, R.Right, 1)',         # ")" or "`" or "}"
 ('ArithmExp','Pos'):'result == R.Left',
 ('ArithmExp','End'):'ite(R.Bracket, pacOK(result, R.Right, 1), pacOK(result, R.Right, 2))',             # "]" or "))"
 ('ArithmCmd','Pos'):'result == R.Left', ('ArithmCmd','End'):'pacOK(result, R.Right, 2)',       # "))"
 ('ParenArithm','Pos'):'result == R.Lparen', ('ParenArithm','End'):'pacOK(result, R.Rparen, 1)',
 ('CaseClause','Pos'):'result == R.Case',
 ('CaseClause','End'):'ite(R.Braces, pacOK(result, R.Esac, 1), pacOK(result, R.Esac, 4))',               # "}" or "esac"
 ('TestClause','Pos'):'result == R.Left', ('TestClause','End'):'pacOK(result, R.Right, 2)',     # "]]"
 ('UnaryTest','Pos'):'result == R.OpPos',
 ('ParenTest','Pos'):'result == R.Lparen', ('ParenTest','End'):'pacOK(result, R.Rparen, 1)',
 ('DeclClause','Pos'):None,
 ('ArrayExpr','Pos'):'result == R.Lparen', ('ArrayExpr','End'):'pacOK(result, R.Rparen, 1)',
 ('ExtGlob','Pos'):'result == R.OpPos',
 ('ProcSubst','Pos'):'result == R.OpPos', ('ProcSubst','End'):'pacOK(result, R.Rparen, 1)',
 ('TimeClause','Pos'):'result == R.Time',
 ('CoprocClause','Pos'):'result == R.Coproc',
 ('LetClause','Pos'):'result == R.Let',
 ('TestDecl','Pos'):'result == R.Position',
 ('ParamExp','End'):'implies(!R.Short, pacOK(result, R.Rbrace, 1))',                           # "}"
 ('ParamExp','Pos'):'implies(validPos(R.Dollar), result == R.Dollar)',
 ('Redirect','Pos'):'implies(R.N == nil, result == R.OpPos)',
 ('UnaryArithm','Pos'):'implies(!R.Post, result == R.OpPos)',
 ('UnaryArithm','End'):'implies(R.Post, pacOK(result, R.OpPos, 2))',                            # "++" / "--"
 ('TimeClause','End'):'implies(R.Stmt == nil, pacOK(result, R.Time, 4))',                       # "time"
}
# Composite nodes: Pos() is the Pos() of the first component in source order, End() the End() of the last one (plus the
# width of a closing token): "each node lies within its parent", written from the node documentation. x.Pos()/x.End()
# in a postcondition denote the results of those pure methods in the same state (see DESIGN I.3, pure calls).
# posAfter(a,b): a is a known position strictly after b.  Lists of clauses: several ensures.
D={
 ('ArrayElem','Pos'):['[first] ite(R.Index != nil, result == R.Index.Pos(), result == R.Value.Pos())'],
 ('ArrayElem','End'):['[last] ite(R.Value != nil, result == R.Value.End(), pacOK(result, R.Index.End(), 2))'],        # "]="
 ('Assign','Pos'):['[first] ite(R.Name == nil, result == R.Value.Pos(), result == R.Name.Pos())'],
 ('Assign','End'):['[last-value] implies(R.Value != nil, result == R.Value.End())',
                   '[last-array] implies(R.Value == nil && R.Array != nil, result == R.Array.End())',
                   '[last-index] implies(R.Value == nil && R.Array == nil && R.Index != nil, pacOK(result, R.Index.End(), ite(R.Naked, 1, 2)))',   # "]" or "]="
                   '[last-name] implies(R.Value == nil && R.Array == nil && R.Index == nil, ite(R.Naked, result == R.Name.End(), pacOK(result, R.Name.End(), 1)))'],  # "="
 ('BinaryArithm','Pos'):['[first] result == R.X.Pos()'], ('BinaryArithm','End'):['[last] result == R.Y.End()'],
 ('BinaryCmd','Pos'):['[first] result == R.X.Pos()'],    ('BinaryCmd','End'):['[last] result == R.Y.End()'],
 ('BinaryTest','Pos'):['[first] result == R.X.Pos()'],   ('BinaryTest','End'):['[last] result == R.Y.End()'],
 ('BraceExp','Pos'):['[first] pacOK(result, R.Elems[0].Pos(), -1)'],                                            # "{"
 ('BraceExp','End'):['[last] pacOK(result, wordLastEnd(R.Elems), 1)'],                                          # "}"
 ('CallExpr','Pos'):['[first] ite(len(R.Assigns) > 0, result == R.Assigns[0].Pos(), result == R.Args[0].Pos())'],
 ('CallExpr','End'):['[last] ite(len(R.Args) == 0, result == R.Assigns[len(R.Assigns)-1].End(), result == R.Args[len(R.Args)-1].End())'],
 ('CaseItem','Pos'):['[first] result == R.Patterns[0].Pos()'],
 ('CaseItem','End'):['[last] implies(!validPos(R.OpPos), result == stmtsEnd(R.Stmts, R.Last))',
                     '[closing-operator] implies(validPos(R.OpPos) && (R.Op == Break || R.Op == Fallthrough || R.Op == Resume || R.Op == ResumeKorn), pacOK(result, R.OpPos, caseOpWidth(R.Op)))'],  # ;; ;& ;;& ;|
 ('CoprocClause','End'):['[last] result == R.Stmt.End()'],
 ('DeclClause','Pos'):['[first] result == R.Variant.Pos()'],
 ('DeclClause','End'):['[last] ite(len(R.Args) > 0, result == R.Args[len(R.Args)-1].End(), result == R.Variant.End())'],
 ('ExtGlob','End'):['[last] pacOK(result, R.Pattern.End(), 1)'],                                                # ")"
 ('File','Pos'):['[first] result == stmtsPos(R.Stmts, R.Last)'], ('File','End'):['[last] result == stmtsEnd(R.Stmts, R.Last)'],
 ('FlagsArithm','Pos'):['[first] pacOK(result, R.Flags.Pos(), -1)'],                                            # "("
 ('FlagsArithm','End'):['[last] ite(R.X != nil, result == R.X.End(), pacOK(result, R.Flags.End(), 1))'],        # ")"
 ('FuncDecl','End'):['[last] result == R.Body.End()'],
 ('LetClause','End'):['[last] result == R.Exprs[len(R.Exprs)-1].End()'],
 ('Redirect','End'):['[last] ite(R.Hdoc != nil, result == R.Hdoc.End(), result == R.Word.End())'],
 ('Stmt','End'):['[terminator] implies(validPos(R.Semicolon) && !R.Coprocess && !R.Disown, pacOK(result, R.Semicolon, 1))',   # ";" or "&"
                 '[covers-command] implies(!validPos(R.Semicolon) && R.Cmd != nil, !posAfter(R.Cmd.End(), result))',
                 '[covers-redirects] implies(!validPos(R.Semicolon) && len(R.Redirs) > 0, !posAfter(R.Redirs[len(R.Redirs)-1].End(), result))',
                 '[command-end] implies(!validPos(R.Semicolon) && R.Cmd != nil && len(R.Redirs) == 0, result == R.Cmd.End())',
                 '[one-of-them] implies(!validPos(R.Semicolon) && R.Cmd != nil && len(R.Redirs) > 0, result == R.Cmd.End() || result == R.Redirs[len(R.Redirs)-1].End())',
                 '[negation-only] implies(!validPos(R.Semicolon) && R.Cmd == nil && len(R.Redirs) == 0, ite(R.Negated, pacOK(result, R.Position, 1), result == R.Position))'],  # "!"
 ('TestDecl','End'):['[last] result == R.Body.End()'],
 ('UnaryTest','End'):['[last] result == R.X.End()'],
 ('Word','Pos'):['[first] result == R.Parts[0].Pos()'], ('Word','End'):['[last] result == R.Parts[len(R.Parts)-1].End()'],
 ('WordIter','Pos'):['[first] result == R.Name.Pos()'],
 ('WordIter','End'):['[last-item] implies(len(R.Items) > 0, result == wordLastEnd(R.Items))',
                     '[covers-name] implies(len(R.Items) == 0, !posAfter(R.Name.End(), result))'],
}
out=[]
for (ty,me),post in sorted(T.items()):
    if post is None: continue
    if (ty,me) not in recv:
        print('no such method',ty,me,file=sys.stderr); continue
    r=recv[(ty,me)]
    out.append(f'//@ func {ty}.{me}\n//@ mode bv\n//@ props C09\n//@ ensures [token] {post.replace("R.",r+".")}\n//@ pure\n')
for (ty,me),posts in sorted(D.items()):
    if (ty,me) not in recv:
        print('no such method',ty,me,file=sys.stderr); continue
    r=recv[(ty,me)]
    ens=''.join(f'//@ ensures {c.replace("R.",r+".")}\n' for c in posts)
    out.append(f'//@ func {ty}.{me}\n//@ mode bv\n//@ props C09\n//@ nosafety\n{ens}//@ pure\n')
# every other Pos()/End() method gets a frame-only contract: it writes nothing.
done={k for k,v in T.items() if v is not None}|set(D)
for (ty,me),r in sorted(recv.items()):
    if (ty,me) in done: continue
    out.append(f'//@ func {ty}.{me}\n//@ mode bv\n//@ props C09\n//@ nosafety\n//@ pure\n')
H={'stmtsPos':['[none] implies(len(stmts) == 0 && len(last) == 0, !validPos(result))',
               '[first-stmt-or-its-comment] implies(len(stmts) > 0, result == stmts[0].Pos() || (len(stmts[0].Comments) > 0 && result == stmts[0].Comments[0].Hash))',
               '[not-after-first-stmt] implies(len(stmts) > 0, !posAfter(result, stmts[0].Pos()))',
               '[first-comment] implies(len(stmts) == 0 && len(last) > 0, result == last[0].Hash)'],
   'stmtsEnd':['[none] implies(len(stmts) == 0 && len(last) == 0, !validPos(result))',
               '[last-comment] implies(len(last) > 0, pacOK(result, last[len(last)-1].Hash, 1 + len(last[len(last)-1].Text)))',
               '[covers-last-stmt] implies(len(last) == 0 && len(stmts) > 0, !posAfter(stmts[len(stmts)-1].End(), result))'],
   'wordLastEnd':['[none] implies(len(ws) == 0, !validPos(result))', '[last] implies(len(ws) > 0, result == ws[len(ws)-1].End())']}
for h,posts in H.items():
    ens=''.join(f'//@ ensures {c}\n' for c in posts)
    out.append(f'//@ func {h}\n//@ mode bv\n//@ props C09\n//@ nosafety\n{ens}//@ pure\n')
# interface methods: pure because every implementation above is verified pure (checked by the iface-purity obligation)
for iface in ('Node','Command','WordPart','ArithmExpr','TestExpr','Loop'):
    for me in ('Pos','End'):
        out.append(f'//@ func {iface}.{me}\n//@ trusted "pure: every implementation has a verified pure contract (obligation syntax#iface-pure)"\n//@ pure\n')
print('\n'.join(out))
