#!/usr/bin/env python3
"""Writes the C09 token-width contracts for Pos()/End() methods into a //@ block.
The TABLE below is the specification: it was written from the node documentation in syntax/nodes.go and the
property text (positions of keywords, operators and quotes point at that exact text), NOT derived from the method
bodies. Only the receiver variable name of each method is read from the source (contracts must use it)."""
import re,sys
src=open('/repo/syntax/nodes.go').read()
recv={}
for m in re.finditer(r'^func \((\w+) \*?(\w+)\) (Pos|End)\(\) Pos',src,re.M):
    recv[(m.group(2),m.group(3))]=m.group(1)
# (Type, method) -> postcondition over receiver R. pacOK(r,p,n) is the relational spec of posAddCol.
T={
 ('Comment','Pos'):'result == R.Hash',
 ('Comment','End'):'pacOK(result, R.Hash, 1 + len(R.Text))',   # '#' plus the text
 ('Stmt','Pos'):'result == R.Position',
 ('Subshell','Pos'):'result == R.Lparen', ('Subshell','End'):'pacOK(result, R.Rparen, 1)',      # ")"
 ('Block','Pos'):'result == R.Lbrace',   ('Block','End'):'pacOK(result, R.Rbrace, 1)',          # "}"
 ('IfClause','Pos'):'result == R.Position', ('IfClause','End'):'pacOK(result, R.FiPos, 2)',     # "fi"
 ('WhileClause','Pos'):'result == R.WhilePos', ('WhileClause','End'):'pacOK(result, R.DonePos, 4)', # "done"
 ('ForClause','Pos'):'result == R.ForPos',
 ('ForClause','End'):'ite(R.Braces, pacOK(result, R.DonePos, 1), pacOK(result, R.DonePos, 4))',         # "}" or "done"
 ('CStyleLoop','Pos'):'result == R.Lparen', ('CStyleLoop','End'):'pacOK(result, R.Rparen, 2)',  # "))"
 ('FuncDecl','Pos'):'result == R.Position',
 ('Lit','Pos'):'result == R.ValuePos', ('Lit','End'):'result == R.ValueEnd',
 ('SglQuoted','Pos'):'result == R.Left', ('SglQuoted','End'):'pacOK(result, R.Right, 1)',       # closing quote
 ('DblQuoted','Pos'):'result == R.Left', ('DblQuoted','End'):'pacOK(result, R.Right, 1)',
 ('CmdSubst','Pos'):'result == R.Left', ('CmdSubst','End'):'pacOK(result, R.Right, 1)',         # ")" or "`" or "}"
 ('ArithmExp','Pos'):'result == R.Left',
 ('ArithmExp','End'):'ite(R.Bracket, pacOK(result, R.Right, 1), pacOK(result, R.Right, 2))',             # "]" or "))"
 ('ArithmCmd','Pos'):'result == R.Left', ('ArithmCmd','End'):'pacOK(result, R.Right, 2)',       # "))"
 ('ParenArithm','Pos'):'result == R.Lparen', ('ParenArithm','End'):'pacOK(result, R.Rparen, 1)',
 ('CaseClause','Pos'):'result == R.Case',
 ('CaseClause','End'):'ite(R.Braces, pacOK(result, R.Esac, 1), pacOK(result, R.Esac, 4))',               # "}" or "esac"
 ('TestClause','Pos'):'result == R.Left', ('TestClause','End'):'pacOK(result, R.Right, 2)',     # "]]"
 ('UnaryTest','Pos'):'result == R.OpPos',
 ('ParenTest','Pos'):'result == R.Lparen', ('ParenTest','End'):'pacOK(result, R.Rparen, 1)',
 ('DeclClause','Pos'):None,
 ('ArrayExpr','Pos'):'result == R.Lparen', ('ArrayExpr','End'):'pacOK(result, R.Rparen, 1)',
 ('ExtGlob','Pos'):'result == R.OpPos',
 ('ProcSubst','Pos'):'result == R.OpPos', ('ProcSubst','End'):'pacOK(result, R.Rparen, 1)',
 ('TimeClause','Pos'):'result == R.Time',
 ('CoprocClause','Pos'):'result == R.Coproc',
 ('LetClause','Pos'):'result == R.Let',
 ('TestDecl','Pos'):'result == R.Position',
 ('ParamExp','End'):'implies(!R.Short, pacOK(result, R.Rbrace, 1))',                           # "}"
 ('ParamExp','Pos'):'implies(validPos(R.Dollar), result == R.Dollar)',
 ('Redirect','Pos'):'implies(R.N == nil, result == R.OpPos)',
 ('UnaryArithm','Pos'):'implies(!R.Post, result == R.OpPos)',
 ('UnaryArithm','End'):'implies(R.Post, pacOK(result, R.OpPos, 2))',                            # "++" / "--"
 ('TimeClause','End'):'implies(R.Stmt == nil, pacOK(result, R.Time, 4))',                       # "time"
}
out=[]
for (ty,me),post in sorted(T.items()):
    if post is None: continue
    if (ty,me) not in recv:
        print('no such method',ty,me,file=sys.stderr); continue
    r=recv[(ty,me)]
    out.append(f'//@ func {ty}.{me}\n//@ mode bv\n//@ props C09\n//@ ensures [token] {post.replace("R.",r+".")}\n//@ pure\n')
# every other Pos()/End() method, and the helpers they share, get a frame-only contract: they write nothing.
done={k for k,v in T.items() if v is not None}
for (ty,me),r in sorted(recv.items()):
    if (ty,me) in done: continue
    out.append(f'//@ func {ty}.{me}\n//@ mode bv\n//@ props C09\n//@ nosafety\n//@ pure\n')
for h in ('stmtsPos','stmtsEnd','wordLastEnd'):
    out.append(f'//@ func {h}\n//@ mode bv\n//@ props C09\n//@ nosafety\n//@ pure\n')
# interface methods: pure because every implementation above is verified pure (checked by the iface-purity obligation)
for iface in ('Node','Command','WordPart','ArithmExpr','TestExpr','Loop'):
    for me in ('Pos','End'):
        out.append(f'//@ func {iface}.{me}\n//@ trusted "pure: every implementation has a verified pure contract (obligation syntax#iface-pure)"\n//@ pure\n')
print('\n'.join(out))
