#!/usr/bin/env python3
"""Regenerates /verif/MANIFEST.json from tools/claims.json (claimed properties) and tools/na.json (reasons)."""
import json,subprocess,os
V='/verif'
props=[json.loads(l) for l in open(f'{V}/properties.jsonl')]
claims=json.load(open(f'{V}/tools/claims.json'))
na=json.load(open(f'{V}/tools/na.json'))
hooks=subprocess.run(['git','-C','/repo','log','--format=%H %s'],capture_output=True,text=True).stdout.strip().split('\n')
def only_contract_files(h):
    fs=subprocess.run(['git','-C','/repo','show','--format=','--name-only',h],capture_output=True,text=True).stdout.split()
    return bool(fs) and all(f.endswith('verif_contracts.go') for f in fs)
# hook commits: every commit that touches only the guarded comment-only contract files
hook_commits=[l.split()[0] for l in hooks if only_contract_files(l.split()[0])]
checks=[]
for p in props:
    c=claims.get(p['id'])
    if not c: continue
    checks.append({
      "property_id":p['id'],
      "quick_cmd":f"bin/govc check {p['id']} --tier quick",
      "thorough_cmd":f"bin/govc check {p['id']} --tier thorough",
      "evidence_file":f"evidence/{p['id']}.json",
      "replay_cmd_template":"bin/govc replay {path}",
      "engine":"govc",
      "level_claimed":{"category":"proof","text":c['text'],"design_ref":c.get('design_ref','DESIGN.md section 3 '+p['id'])},
      "level_note":c['note'],
      "technique":c.get('technique',"contract-based deductive verification: weakest-precondition VCs generated from go/ssa of /repo's working tree against //@ contracts in <pkg>/verif_contracts.go, discharged by z3/z3-new/cvc5 (unsat of the negated obligation)"),
    })
m={"version":1,
 "setup_cmd":"cd /verif/govc && PATH=/opt/veriftools/go1.26.8/bin:$PATH GOTOOLCHAIN=local GOFLAGS=-mod=mod GOPROXY=off GOSUMDB=off go build -o /verif/bin/govc .",
 "hooks":{"guard":"verif","enable":"go build -tags verif ./... (the guarded files are comment-only contract files <pkg>/verif_contracts.go; govc loads /repo with -tags=verif)","baseline_off_cmd":"cd /repo && go test -json -vet=off -count=1 -timeout 25m ./...","source_commits":hook_commits,"add_only":True},
 "engines":[{"name":"govc","path":"govc/","serves_properties":[c['property_id'] for c in checks],"kind_free_text":"VC generator over go/ssa (passive-form weakest preconditions, loop invariants, callee contracts) + structural and provenance obligation generators; SMT back ends z3 4.8.12, z3 5.1.0, cvc5 1.0.3"}],
 "checks":checks,
 "notes":"See DESIGN.md. Every claimed check is partial where level_text says so: it proves the named kernel for all inputs and names the rest as undecided.",
 "not_applicable":[{"property_id":p['id'],"reason":na.get(p['id'],"within reach of contract-based deductive verification per DESIGN.md section 3, machinery not built yet")} for p in props if p['id'] not in claims]}
json.dump(m,open(f'{V}/MANIFEST.json','w'),indent=1)
print(len(checks),'claimed;',len(m['not_applicable']),'n/a')
