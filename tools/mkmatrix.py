#!/usr/bin/env python3
"""Fills the seed matrix table in DESIGN.md (between the SEED-MATRIX markers) from seeded/*/meta.json."""
import json,glob,re,os
V='/verif'
rows=[]
for f in sorted(glob.glob(f'{V}/seeded/*/meta.json')):
    m=json.load(open(f))
    det=m['detection']
    ran=[k for k,v in det['checks_run'].items() if v.get('claimed')]
    if det['caught']:
        obl=[]
        for k in det['caught_by']:
            for o in det['checks_run'][k]['violations'][:2]:
                obl.append(f'{k}: `{o[:90]}`')
        res='**caught** — '+'; '.join(obl[:3])
    elif not ran:
        res='no check claimed for this property (not decided by this technique)'
    else:
        res='missed by '+', '.join(ran)
    t=m['title']; t=re.sub(r'^Seed\s+\S+\s*/\s*change\s*\d+\s*:\s*','',t)
    rows.append(f"| {m['seed']} | {t[:110]} | {res} |")
tbl="| seed | change | result of the quick checks |\n|---|---|---|\n"+"\n".join(rows)
caught=sum('**caught**' in r for r in rows); nochk=sum('no check claimed' in r for r in rows)
tbl+=f"\n\n{len(rows)} confirmed seeds: {caught} caught, {len(rows)-caught-nochk} missed by a claimed check, {nochk} for properties without a claimed check.\n"
p=f'{V}/DESIGN.md'; s=open(p).read()
a='<!-- SEED-MATRIX-BEGIN -->'; b='<!-- SEED-MATRIX-END -->'
i=s.index(a)+len(a); j=s.index(b)
open(p,'w').write(s[:i]+'\n'+tbl+s[j:])
print(len(rows),'rows;',caught,'caught')
