#!/usr/bin/env python3
"""Writes /verif/seeded/<seed>/meta.json for every seed from the agent's README (what the change is, what it needs
to manifest), the confirmation protocol of tools/confirm_seed.sh, and the last detection.txt of tools/seed_matrix.sh."""
import json,os,re,glob
V='/verif'
titles={json.loads(l)['id']:json.loads(l)['title'] for l in open(f'{V}/properties.jsonl')}
def section(md,head):
    m=re.search(r'^##+\s*'+head+r'.*?\n(.*?)(?=^##+\s|\Z)',md,re.S|re.M|re.I)
    return re.sub(r'\s+',' ',m.group(1)).strip() if m else ''
for d in sorted(glob.glob(f'{V}/seeded/*-*')):
    seed=os.path.basename(d); prop=seed.split('-')[0]
    md=open(f'{d}/README.agent.md').read() if os.path.exists(f'{d}/README.agent.md') else ''
    title=(re.search(r'^#\s*(.*)',md,re.M).group(1).strip() if md else seed)
    change=section(md,'The change') or section(md,'Change')
    why=section(md,'Why it breaks')
    needs=section(md,'What it needs') or section(md,'Needs')
    pkg=open(f'{d}/.pkg').read().strip() if os.path.exists(f'{d}/.pkg') else ''
    det=open(f'{d}/detection.txt').read() if os.path.exists(f'{d}/detection.txt') else ''
    checks={}
    cur=None
    for line in det.splitlines():
        m=re.match(r'## check (\w+)(: not claimed)?',line)
        if m:
            cur=m.group(1); checks[cur]={'claimed':not m.group(2),'violations':[]}
        elif line.startswith('VIOLATION') and cur:
            m2=re.search(r'obligation=(\S+)',line)
            checks[cur]['violations'].append(m2.group(1) if m2 else line)
        elif line.startswith('PATCH FAILED'):
            checks['_patch']={'claimed':False,'violations':[],'note':line}
    caught=sorted(k for k,v in checks.items() if v['violations'])
    meta={
      'seed':seed,'property':prop,'property_title':titles.get(prop,''),
      'title':title,'change':change[:1500],'why_it_breaks_the_property':why[:1500],
      'needs_to_manifest':needs[:2000],
      'files':sorted(set(re.findall(r'^\+\+\+ b/(\S+)',open(f'{d}/patch.diff').read(),re.M))),
      'patch':'patch.diff'+(' (patch.ported.diff: same change re-based onto the tree after later fix commits)' if os.path.exists(f'{d}/patch.ported.diff') else ''),
      'demonstration':f'demo_test.go (package directory {pkg}; copied in as zz_seed_demo_test.go)',
      'author':'fresh sub-agent given only the property text and a scratch worktree under /tmp (never /repo, nothing from /verif; round 2 worktrees had the guarded contract files removed)',
      'confirmed_by_me':{
        'tool':'tools/confirm_seed.sh (worktree of the agent, then removed with git worktree remove --force)',
        'what_was_run':['demo test on the unchanged worktree: passes','git apply patch.diff; go build ./...: builds','demo test with the patch: FAILS (the property is broken observably)',
                        'go test ./... with the patch (guard off): no failure beyond the baseline failures of the pinned suite; timing-based tests that failed under load were re-run alone','git checkout -- . (seed undone; never committed to /repo)'],
        'result':'confirmed'},
      'detection':{'tool':'tools/seed_matrix.sh '+seed+' (scratch copy of /repo HEAD + patch; quick checks with GOVC_REPO pointing at the copy)',
                   'checks_run':{k:v for k,v in checks.items()},
                   'caught_by':caught,'caught':bool(caught)},
    }
    json.dump(meta,open(f'{d}/meta.json','w'),indent=1)
    print(seed,'caught by',caught if caught else '-')
