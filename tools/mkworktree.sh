#!/bin/bash
# usage: mkworktree.sh <dir> : scratch worktree of /repo HEAD for an independent seeding sub-agent. The guarded contract
# files (<pkg>/verif_contracts.go) are removed in a throw-away commit on the detached HEAD so that the agent sees nothing
# of what /verif checks; `git diff` in the worktree is then relative to that commit.
set -e
d=$1
git -C /repo worktree add -q --detach $d HEAD
cd $d
git rm -q $(git ls-files | grep 'verif_contracts.go$')
git -c user.name=builder -c user.email=builder@example.invalid commit -q -m "scratch: contracts removed for the seeding agent"
echo "worktree $d at $(git rev-parse --short HEAD)"
