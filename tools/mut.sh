#!/bin/bash
# usage: mut.sh <file> <sed-expr> <pkg> <funcs...>  : apply sed to a scratch copy of /repo and run govc verify there
set -e
d=$(mktemp -d /var/tmp/mut.XXXXXX)
cp -r /repo/. $d/
f=$1; ex=$2; shift 2
sed -i "$ex" $d/$f
if diff -q /repo/$f $d/$f >/dev/null; then echo "MUTATION DID NOT APPLY"; rm -rf $d; exit 2; fi
(cd $d && go build ./... 2>&1 | head -5)
GOVC_REPO=$d /verif/bin/govc verify -t 10 "$@" 2>&1 | cut -c1-160 | grep -v "^==" | tail -6
rm -rf $d
