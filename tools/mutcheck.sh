#!/bin/bash
# usage: mutcheck.sh <file> <sed-expr> <prop>... : apply sed to a scratch copy of /repo and run `govc check <prop>` on it
d=$(mktemp -d /var/tmp/mut.XXXXXX)
cp -r /repo/. $d/; rm -rf $d/.git
f=$1; ex=$2; shift 2
sed -i "$ex" $d/$f
if diff -q /repo/$f $d/$f >/dev/null; then echo "MUTATION DID NOT APPLY"; rm -rf $d; exit 2; fi
(cd $d && GOFLAGS=-mod=mod GOPROXY=off go build ./... 2>&1 | head -5)
for p in "$@"; do GOVC_REPO=$d GOVC_SCRATCH=$d/.scratch /verif/bin/govc obls $p | python3 -c "
import json,sys
rows=json.load(sys.stdin)
bad=[r['name'] for r in rows if not r['discharged']]
print('$p', len(rows),'obligations;', len(bad),'failing:', bad[:6])"; done
rm -rf $d
