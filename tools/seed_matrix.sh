#!/bin/bash
# For every confirmed seed: copies /repo's HEAD to a scratch directory (outside /repo and /verif, removed afterwards),
# applies the seed there, runs the quick check(s) of its property (and closely related ones) with GOVC_REPO pointing
# at the copy, and writes /verif/seeded/<seed>/detection.txt. (Same checks as `git -C /repo apply` + run + checkout,
# without blocking /repo.)  usage: seed_matrix.sh [seed...]
V=${VERIF_ROOT:-/verif}
cd $V
related() { case $1 in C33) echo "C33 C27";; C27) echo "C27 C29";; C29) echo "C29 C27";; C35) echo "C35 C36";; C28) echo "C28 C33";; C06) echo "C06 C08 C07";; C07) echo "C07 C06";; C08) echo "C08 C07 C06";; C23) echo "C23 C28";; C16) echo "C16 C29";; *) echo "$1";; esac; }
claimed=$(python3 -c "import json;print(' '.join(c['property_id'] for c in json.load(open('MANIFEST.json'))['checks']))")
seeds="$@"; [ -z "$seeds" ] && seeds=$(ls seeded)
one() {
  s=$1; p=${s%%-*}; d=$V/seeded/$s
  out=$d/detection.txt; : > $out
  patchfile=$d/patch.diff; [ -f $d/patch.ported.diff ] && patchfile=$d/patch.ported.diff
  tmp=$(mktemp -d /var/tmp/seedrun.XXXXXX)
  git -C /repo archive HEAD | tar -x -C $tmp
  if ! (cd $tmp && (git apply $patchfile 2>/dev/null || patch -p1 -s < $patchfile)); then echo "PATCH FAILED (does not apply to the current tree)" >> $out; rm -rf $tmp; echo "$s: patch failed"; return; fi
  for q in $(related $p); do
    if echo " $claimed " | grep -q " $q "; then
      echo "## check $q" >> $out
      GOVC_REPO=$tmp GOVC_SCRATCH=$tmp/.scratch GOVC_OUT=$tmp/.out GOVC_VERIF=$V $V/bin/govc check $q 2>&1 | grep -E "^property|VIOLATION" | sed 's/replay=[^ ]* //' | cut -c1-250 >> $out
    else
      echo "## check $q: not claimed" >> $out
    fi
  done
  rm -rf $tmp
  echo "$s: $(grep -c VIOLATION $out) violation lines"
}
for s in $seeds; do one $s; done
