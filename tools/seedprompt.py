#!/usr/bin/env python3
"""Print the prompt given to an independent sub-agent that seeds a property-breaking change.
Only the property text and a scratch worktree path are given (nothing from /verif)."""
import json,sys
pid=sys.argv[1]; wt=sys.argv[2]
for l in open('/verif/properties.jsonl'):
    p=json.loads(l)
    if p['id']==pid: break
else: sys.exit("no such property")
ROUND=sys.argv[3] if len(sys.argv)>3 else ""
print(f"""You are testing a Go project (mvdan/sh, a shell parser/formatter/interpreter). You have your own scratch git worktree of it at {wt} (work ONLY there; never touch /repo or /verif, and do not read /verif).

Here is a semantic property the project is supposed to satisfy:

  id: {p['id']}
  title: {p['title']}
  statement: {p['statement']}
  quantified over: {p['quantifier']['text']}
  why ordinary tests cannot settle it: {p['why_tests_cant']}
  code anchors: {json.dumps(p['anchors'].get('mechanism'))} in files {json.dumps(p['anchors'].get('files'))}

Task: produce TWO independent, realistic changes to the project's non-test Go source (each one a separate small patch, the kind of mistake a maintainer could plausibly make in a refactor or "optimisation") such that, for EACH change taken alone:
  1. the project still compiles (`cd {wt} && go build ./...`) and the ENTIRE existing test suite still passes (`cd {wt} && go test -vet=off -count=1 ./... 2>&1 | tail -20`; note that 6 subtests of interp TestRunnerRun (#1317-#1321) fail on the unmodified tree already in this sandbox - ignore exactly those);
  2. the change BREAKS the property above;
  3. the breakage needs something specific to manifest - an unusual input, a particular multi-step sequence of operations, a boundary value, a rarely used language variant or option, or two cooperating sites that each look fine alone - NOT something ordinary use would expose at once;
  4. you have a demonstration: a Go test file (placed in the relevant package directory of the worktree, named zz_seed_demo_test.go, or a small standalone program) that FAILS with the change and PASSES without it.

Environment: no network. Use `export GOFLAGS=-mod=mod GOPROXY=off` before go commands; run go from inside {wt} (the go.mod there selects the right toolchain automatically; do NOT set GOTOOLCHAIN or GOSUMDB). Do not edit existing test files. Do not commit anything.

Deliver, under {wt}/SEED/ (create it), for change k in 1,2: SEED/k/patch.diff (output of `git diff` for the non-test source change only, applying cleanly with `git apply` to the original tree), SEED/k/demo_test.go (the demonstration, with a first-line comment saying which package directory it belongs in) and SEED/k/README.md (with the sections '## The change', '## Why it breaks the property', '## What it needs to manifest', '## Commands run and results': what the change is, why it breaks the property, what it needs to manifest, and the exact commands you ran with their observed results: demo fails with the change, demo passes without it, full suite passes with the change). Before finishing, leave the worktree source reverted to the original (git checkout -- . ; remove your demo file from the package dir) so only SEED/ remains. In your final answer, summarise both changes in a few lines each. If you can only find one valid change, deliver one.""")
