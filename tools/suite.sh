#!/bin/bash
# runs the repository test suite (guard off) in dir $1 (default /repo) and prints failures other than the 6 known baseline failures
d=${1:-/repo}
cd $d && export GOFLAGS=-mod=mod GOPROXY=off
go test -vet=off -count=1 ./... 2>&1 | grep -E "^\s*--- FAIL|^panic|^FAIL|\[build failed\]" | grep -v "TestRunnerRun/#13\(17\|18\|19\|20\|21\) \|--- FAIL: TestRunnerRun (\|^FAIL$\|^FAIL	mvdan.cc/sh/v3/interp" 
echo "suite-done"
