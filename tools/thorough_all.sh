#!/bin/bash
# runs the thorough tier of every claimed check (evidence redirected) and prints one line per property
cd "$(dirname "$0")/.."
[ -x bin/govc ] || (cd govc && PATH=/opt/veriftools/go1.26.8/bin:$PATH GOTOOLCHAIN=local GOFLAGS=-mod=mod GOPROXY=off GOSUMDB=off go build -o ../bin/govc .)
for p in $(python3 -c "import json;print(' '.join(c['property_id'] for c in json.load(open('MANIFEST.json'))['checks']))"); do
  GOVC_OUT=${GOVC_OUT:-/var/tmp/govc-thorough} bin/govc check $p --tier thorough 2>&1 | grep -E "^property|VIOLATION|KNOWN" | cut -c1-220
done
