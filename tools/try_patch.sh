#!/bin/bash
# usage: try_patch.sh <patch> <prop>... : scratch copy of /repo HEAD + patch, run quick checks there (evidence/replays go to the copy)
p=$(readlink -f $1); shift
tmp=$(mktemp -d /var/tmp/trypatch.XXXXXX)
git -C /repo archive HEAD | tar -x -C $tmp
(cd $tmp && (git apply $p 2>/dev/null || patch -p1 -s < $p)) || { echo "patch failed"; rm -rf $tmp; exit 2; }
for q in "$@"; do
  GOVC_REPO=$tmp GOVC_SCRATCH=$tmp/.scratch GOVC_OUT=$tmp/.out /verif/bin/govc check $q 2>&1 | grep -E "^property|VIOLATION|KNOWN|machinery" | cut -c1-400
  if [ -n "$KEEP" ]; then for f in $tmp/.out/replays/$q/*.json; do [ -f "$f" ] && python3 -c "
import json,sys
d=json.load(open('$f'))
r=d.get('replay')
print('--', d['obligation']); print('   model:', json.dumps(d.get('model'))[:600])
if r: print('   replay:', r.get('output')); 
"; done; fi
done
[ -n "$KEEPDIR" ] && echo "kept $tmp" || rm -rf $tmp
