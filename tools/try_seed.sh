#!/bin/bash
# usage: try_seed.sh <seed-dir-name> <prop>... : applies seeded/<name>/patch.diff to /repo, runs the quick checks, reverts.
s=/verif/seeded/$1; shift
cd /repo || exit 2
[ -z "$(git status --porcelain)" ] || { echo "/repo not clean"; exit 2; }
git apply $s/patch.diff 2>/dev/null || patch -p1 -s < $s/patch.diff || { echo "PATCH FAILED"; git checkout -q -- .; exit 2; }
for p in "$@"; do (cd /verif && GOVC_OUT=/var/tmp/govc-seedrun bin/govc check $p 2>&1 | grep -E "^property|VIOLATION|KNOWN" | cut -c1-260 | head -8); done
git -C /repo checkout -q -- .; git -C /repo clean -fdq -e verif_contracts.go
