#!/bin/bash
s=/verif/seeded/$1
cd /repo || exit 2
[ -z "$(git status --porcelain)" ] || { echo "/repo not clean"; exit 2; }
git apply $s/patch.diff 2>/dev/null || patch -p1 -s < $s/patch.diff || { echo "PATCH FAILED"; git checkout -q -- .; exit 2; }
(cd /verif && bin/govc prov 2>&1 | cut -c1-200 | grep -v "assignVal#write@prev.List")
git -C /repo checkout -q -- .
